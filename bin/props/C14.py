"""C14 reset_data_keyframe semantics.

Proof:   Props/C14.v over Model/Reset.v's reset_data_keyframe (wrapper checks, valid_key_mask, reset_data
         with that mask, reset_keyframe_data) against the specification key_world.
S tie:   ast extraction of io.py:reset_data_keyframe (launch outputs, loop bounds, the scalar range test,
         the call of reset_data with the mask).
C tie:   real reset_data_keyframe after random histories with random key arrays (valid and invalid
         indices), scalar keys (valid, invalid, numpy ints) and wrongly shaped arrays, replayed through the
         model inside Coq and compared bit for bit (a raised ValueError <-> None).
Oracle:  mujoco.mj_resetDataKeyframe for every valid world (time qpos qvel act ctrl mocap + the other
         integration-state fields), invalid worlds unchanged, invalid scalar rejected without side effect,
         and independence of the history: the same keyframe reset of a fresh Data gives the same
         trajectory.  The open finding inherited from reset_data (contacts under a partial mask) is
         reported under C13 only.
"""

from __future__ import annotations

import ast
import json

import numpy as np

import propkit
import vlib
from props import C13

MANIFEST = {
  "text": "proof: theorems about the hand-written executable model Model/Reset.v of io.py reset_data_keyframe: a valid key index gives EXACTLY a fresh world carrying the keyframe's time/qpos/qvel/act (all na entries)/ctrl/mocap poses (full World record incl. history), an invalid index leaves the world unwritten, out-of-range scalar keys and wrongly shaped key arrays are rejected, a valid scalar equals the constant array. Only tested: that the model equals the real function (bit-exact correspondence after random histories, ast comparison of launches and loop bounds), agreement with mujoco.mj_resetDataKeyframe, and trajectories after the reset",
  "note": "trusted: Coq kernel + vm_compute; hand-written model Model/Reset.v (tied by S extraction and correspondence on every run); float32 values carried as bit patterns; mujoco 3.13 mj_resetDataKeyframe as oracle; findings of reset_data are reported under C13",
  "technique": "Rocq proof over a hand-written executable model + static extraction (ast) + differential correspondence and MuJoCo oracle",
  "engine": "coq",
}

PROPS = "Props/C14.v"
KEY_FIELDS = ["time", "qpos", "qvel", "act", "ctrl", "mocap_pos", "mocap_quat"]
OTHER_STATE = ["qacc_warmstart", "qfrc_applied", "xfrc_applied", "eq_active", "userdata", "history", "act_dot", "qacc"]

EXPECTED_LAUNCHES = [("valid_key_mask", ["reset_mask"]), ("reset_keyframe_data", KEY_FIELDS[:4] + ["ctrl", "mocap_pos", "mocap_quat"])]
EXPECTED_STORES = {
  "valid_key_mask": {"mask_out": ("", "")},
  "reset_keyframe_data": {"time_out": ("", ""), "qpos_out": ("nq", ""), "qvel_out": ("nv", ""), "act_out": ("na", ""),
                          "mocap_pos_out": ("nmocap", ""), "mocap_quat_out": ("nmocap", ""), "ctrl_out": ("nu", "")},
}  # fmt: skip


def s_check(res):
  ex = C13.s_extract("reset_data_keyframe")
  diffs = []
  got = [(k, f) for _, k, f in ex["launches"]]
  if got != EXPECTED_LAUNCHES:
    diffs.append(f"launches {got}")
  for k, tab in EXPECTED_STORES.items():
    st = {a: sorted(v) for a, v in ex["stores"].get(k, {}).items()}
    exp = {a: [v] for a, v in tab.items()}
    if st != exp:
      diffs.append(f"{k}: stores {st}")
  with open(C13.IO_PY) as fh:
    tree = ast.parse(fh.read())
  fn = next(n for n in tree.body if isinstance(n, ast.FunctionDef) and n.name == "reset_data_keyframe")
  tests = [ast.unparse(n.test) for n in ast.walk(fn) if isinstance(n, ast.If) and any(isinstance(b, ast.Raise) for b in n.body)]
  if "key < 0 or key >= m.nkey" not in tests or "key.shape != (d.nworld,)" not in tests:
    diffs.append(f"wrapper raise tests {tests}")
  calls = [ast.unparse(n) for n in ast.walk(fn) if isinstance(n, ast.Call) and getattr(n.func, "id", "") == "reset_data"]
  if calls != ["reset_data(m, d, reset_mask)"]:
    diffs.append(f"reset_data calls {calls}")
  masks = [ast.unparse(n.value) for n in ast.walk(fn) if isinstance(n, ast.Assign) and isinstance(n.targets[0], ast.Subscript) and ast.unparse(n.targets[0]) == "mask_out[worldid]"]
  if masks != ["key >= 0 and key < nkey"]:
    diffs.append(f"valid_key_mask {masks}")
  res.obligation("S: launches, outputs, loop bounds, validity test and wrapper checks of io.py:reset_data_keyframe equal the table Model/Reset.v was transcribed from", not diffs, "; ".join(diffs)[:1200])
  return not diffs


def key_term(arg):
  if isinstance(arg, tuple) and arg[0] == "int":
    return f"(KInt {C13.zs(arg[1])})"
  return f"(KArr {C13.zl(arg[1])})"


def random_key(rng, nw, nkey):
  """(description, python value passed to the real function)."""
  import warp as wp

  r = rng.random()
  if r < 0.55:
    ks = [int(rng.integers(-2, nkey + 2)) for _ in range(nw)]
    if rng.random() < 0.2:
      ks[int(rng.integers(nw))] = int(rng.choice([-(2**31), 2**31 - 1, 1000]))
    return ("arr", ks), wp.array(np.array(ks, dtype=np.int32), dtype=int)
  if r < 0.75:
    k = int(rng.integers(0, max(nkey, 1)))
    return ("int", k), (np.int64(k) if rng.random() < 0.4 else k)
  if r < 0.9:
    k = int(rng.choice([-1, nkey, nkey + 3, -7]))
    return ("int", k), k
  n2 = nw + int(rng.choice([-1, 1]))
  ks = [int(rng.integers(0, max(nkey, 1))) for _ in range(max(n2, 0))]
  return ("arr", ks), wp.array(np.array(ks, dtype=np.int32), dtype=int)


def oracle_keyframe(sc, arg, post_rows, pre_rows, raised, found, res):
  """mj_resetDataKeyframe for valid worlds, frame for invalid ones."""
  import mujoco

  mjm, nw, nkey = sc.mjm, sc.nw, sc.mjm.nkey
  rep = {"scenario": sc.describe(), "log": list(sc.log), "key": arg}
  if arg[0] == "int":
    if arg[1] < 0 or arg[1] >= nkey:
      if not raised:
        found.setdefault("C14:reset_data_keyframe:invalid-scalar-accepted", (f"scalar key {arg[1]} with nkey={nkey} did not raise", rep))
      elif any(C13.diff_world(post_rows, pre_rows, w) for w in range(nw)):
        found.setdefault("C14:reset_data_keyframe:rejected-call-has-side-effect", (f"scalar key {arg[1]} raised but Data changed", rep))
      return []
    keys = [arg[1]] * nw
  else:
    if len(arg[1]) != nw:
      if not raised:
        found.setdefault("C14:reset_data_keyframe:bad-shape-accepted", (f"key array of length {len(arg[1])} for nworld={nw} did not raise", rep))
      elif any(C13.diff_world(post_rows, pre_rows, w) for w in range(nw)):
        found.setdefault("C14:reset_data_keyframe:rejected-call-has-side-effect", ("wrongly shaped key array raised but Data changed", rep))
      return []
    keys = arg[1]
  if raised:
    found.setdefault("C14:reset_data_keyframe:valid-call-raised", (f"key {arg} raised {raised}", rep))
    return []
  valid = []
  for w, k in enumerate(keys):
    if 0 <= k < nkey:
      valid.append(w)
      mjd = mujoco.MjData(mjm)
      mjd.qvel[:] = 3.0  # mj_resetDataKeyframe must overwrite whatever is there
      mujoco.mj_resetDataKeyframe(mjm, mjd, k)
      for f in KEY_FIELDS + OTHER_STATE:
        ref = np.asarray(getattr(mjd, f))
        exp = C13.bits(ref.astype(bool) if f == "eq_active" else ref.astype(np.float32)).reshape(-1)
        got = post_rows[f][w].reshape(-1)
        if not np.array_equal(got, exp):
          found.setdefault("C14:reset_data_keyframe:field-" + f, (f"world {w} key {k}: {f} bits {got[:8].tolist()} but mj_resetDataKeyframe gives {exp[:8].tolist()}", dict(rep, world=w, field=f)))
    else:
      bad = [f for f in C13.diff_world(post_rows, pre_rows, w)]
      if bad:
        found.setdefault("C14:reset_data_keyframe:invalid-index-world-written", (f"world {w} has invalid key {k} (nkey={nkey}) but fields {bad} changed", dict(rep, world=w, fields=bad)))
  return valid


def run_one_scenario(res, s, seed, kind, nw, nops, found):
  import mujoco_warp as mjw

  sc = C13.Scenario(seed, kind, nw)
  sc.index, sc.nops = s, nops
  sc.info_h0 = np.asarray(sc.info["history0"], dtype=np.int64)
  skip = C13.uninitialised_fields()
  lines, defs, meta = [], [], []
  defs.append(f"Definition km{s} : MModel := {C13.mmodel_term(sc.info)}.")
  nkey = sc.mjm.nkey
  for j in range(nops):
    C13.scramble_and_step(sc, [sc.d], int(sc.rng.integers(1, 4)))
    arg, real = random_key(sc.rng, nw, nkey)
    pre = C13.snapshot(sc.d)
    pre_rows = C13.world_rows(sc.d, skip)
    raised = None
    try:
      mjw.reset_data_keyframe(sc.m, sc.d, real)
    except ValueError as e:
      raised = str(e)[:80]
    post = C13.snapshot(sc.d)
    post_rows = C13.world_rows(sc.d, skip)
    name = f"kd{s}_{j}"
    defs.append(f"Definition {name} : Data := {C13.data_term(pre)}.")
    exp = [-999] if raised else C13.flat_data(post)
    lines.append(f"tvz (flat_data (reset_data_keyframe km{s} {key_term(arg)} {name})) {C13.zl(exp)}")
    meta.append({"scenario": sc.describe(), "key": arg, "raised": raised, "log": list(sc.log)})
    res.nontrivial(("keyframe", kind, nw, arg[0], str(arg[1]), bool(raised)))
    valid = oracle_keyframe(sc, arg, post_rows, pre_rows, raised, found, res)
    res.count()
    sc.log.append(("keyframe", arg))
    # independence of the history: the same keyframe reset of a fresh Data, then 2 steps of both
    if valid and not raised:
      fresh = sc.mk()
      mjw.reset_data_keyframe(sc.m, fresh, real)
      dz = C13.clone_data(sc, sc.d)  # same Data with the two stale fields of C13:reset_data:stale-cvel-cdof_dot cleared
      dz.cvel.zero_()
      dz.cdof_dot.zero_()
      for _ in range(2):
        C13.set_ctrl(sc.rng, sc.mjm, [sc.d, fresh, dz])
        for dd in (sc.d, fresh, dz):
          mjw.step(sc.m, dd)
      a, f, z = C13.world_rows(sc.d, skip), C13.world_rows(fresh, skip), C13.world_rows(dz, skip)
      for w in valid:
        bad = [x for x in C13.TRAJ_FIELDS if not np.array_equal(a[x][w], f[x][w])]
        if not bad:
          continue
        # (the two causes below were C13 defects, repaired in /repo; named here if they ever come back)
        cause = ""
        if sc.info["nhistory"] and not np.array_equal(post_rows["history"][w], sc.info_h0):
          cause = " (history was not restored: C13:reset_data:history)"
        elif not [x for x in C13.TRAJ_FIELDS if not np.array_equal(z[x][w], f[x][w])]:
          cause = " (clearing d.cvel/d.cdof_dot removes the difference: C13:reset_data:stale-cvel-cdof_dot)"
        found.setdefault("C14:reset_data_keyframe:trajectory-depends-on-history", (f"2 steps after the same keyframe reset, world {w} differs from a keyframe-reset fresh Data in {bad}{cause}", {"scenario": sc.describe(), "log": list(sc.log), "key": arg, "world": w, "fields": bad}))
  return lines, defs, meta


KINDS = ["na>nu key", "na<=nu key eqc", "delay key", "na>nu sleep key", "na<=nu mocapchild key", "manyeq na<=nu key", "interval na>nu key",
         "manyeq interval key"]


def run(res):
  import tvalid

  quick = res.tier == "quick"
  res.rule = "correspondence cases: (model, Data after a random history, key argument) triples, distinct = (model kind, nworld, key argument, raised); oracle evaluations: one per reset_data_keyframe call on the real code"
  ok, trs, failing = propkit.prove(res, PROPS)
  tied = s_check(res)
  found = {}
  lines, defs, meta = [], [], []
  base = vlib.seed() * 1000 + 1400
  nscen = 8 if quick else 30
  for s in range(nscen):
    l, d, m = run_one_scenario(res, s, base + s, KINDS[s % len(KINDS)], 1 + s % 3, 3 if quick else 5, found)
    lines += l
    defs += d
    meta += m
  verdicts = tvalid.run_cases("C14", ["Model.Reset"], lines, chunk=10, extra_defs="Local Open Scope Z_scope.\n" + "\n".join(defs) + "\n")
  bad = [m for m, v in zip(meta, verdicts) if v != 0]
  res.count(len(lines))
  if meta:
    res.sample({"kind": "correspondence", "key": meta[0]["key"], "raised": meta[0]["raised"], "model_kind": meta[0]["scenario"]["kind"]})
  res.obligation("correspondence Model/Reset.v reset_data_keyframe vs real reset_data_keyframe, bit-exact (ValueError <-> None)", not bad, f"{len(bad)} of {len(lines)} cases disagree")
  # witness of the satisfiability theorem: same state as C13's wit_key (tied there), here the keyframe op itself
  wl = witness_cases()
  wv = tvalid.run_cases("C14w", ["Model.Reset", "Proof.Reset"], wl, chunk=20, extra_defs="Local Open Scope Z_scope.\n")
  res.count(len(wl))
  res.obligation("wit_key of Proof/Reset.v: state equals the one built on the real code and the model's keyframe reset of it equals the real one", not any(wv), f"verdicts {wv}")
  for key, (what, data) in sorted(found.items()):
    res.violation(key, what, data)
  known = {(k.get("property"), k.get("key")) for k in vlib.load_known().get("findings", [])}
  new_keys = [k for k in found if ("C14", k) not in known]
  broken = []
  if not ok:
    broken.append(str(failing or PROPS))
  if not tied:
    broken.append("S-extraction(io.py:reset_data_keyframe differs from the transcribed table)")
  if bad or any(wv):
    broken.append(f"correspondence({len(bad)} scenario cases, witness verdicts {wv})")
  if broken and not new_keys:
    propkit.broken_proof_violation(res, "C14 model/theorems no longer tied to io.py reset_data_keyframe", "; ".join(broken), {"disagreeing_cases": bad[:2]})
  res.assumptions += [
    "float32 values are treated as opaque bit patterns (the keyframe kernels only copy)",
    "the open finding of reset_data (contacts under a partial mask) is inherited and reported under C13",
    "a key array of a non-int32 integer dtype is not exercised (the kernel signature is wp.array[int])",
  ]


def witness_cases():
  import warp as wp

  import mujoco_warp as mjw

  lines = []
  for ks in ([5, 1], [0, 1], [-1, 2]):
    mjm, m, d, info, pre = C13.witness_real("key")
    if not lines:
      lines.append(f"tvz (flat_mmodel wit_key_m) {C13.zl(C13.flat_mmodel(info))}")
      lines.append(f"tvz (flat_data (Some wit_key_d)) {C13.zl(C13.flat_data(pre))}")
    mjw.reset_data_keyframe(m, d, wp.array(np.array(ks, dtype=np.int32), dtype=int))
    lines.append(f"tvz (flat_data (reset_data_keyframe wit_key_m (KArr {C13.zl(ks)}) wit_key_d)) {C13.zl(C13.flat_data(C13.snapshot(d)))}")
  return lines


def replay(res, path):
  stored = json.load(open(path))
  r = stored["replay"]
  if not isinstance(r, dict) or "scenario" not in r:
    print("replay: no concrete input in this file (proof/correspondence breakage); re-run the check")
    return 1
  sc = r["scenario"]
  found = {}
  run_one_scenario(res, sc["index"], sc["seed"], sc["kind"], sc["nworld"], sc["nops"], found)
  for k, (what, _) in sorted(found.items()):
    print(("* " if k == stored.get("key") else "  ") + k + ": " + what[:300])
  return 0 if stored.get("key") in found else 1
