"""C32 Disable and enable flags act exactly as in MuJoCo.

Proof (S-tied): Props/C32.v over data regenerated from /repo on every run
  Gen/Skel_flags.v    bin/extract_flags.py: every syntactic use of a DisableBit / EnableBit (host code, kernels,
                      @wp.func, factories), enum tables, put_model rejection loop, per-kernel tested bits, truth
                      tables of the host tests;
  Gen/Skel_pipeline.v the host program, flattened by Model/Pipeline.v.
Theorems: flag_table_complete, sleep_guard_consistent, taint_sound / resolve_sound (generic),
flag_events_differ_only_in_guarded_regions, flag_noninterference_partial, flag_gates_only_own_stage_partial.

Ties to the real code, run on every check:
  * the extractor's three-valued evaluator against Python's own evaluation of each host test on the real
    IntFlag objects (every row of every truth table);
  * put_model on the real code: every MuJoCo bit outside MJWarp's enums is rejected, every listed bit accepted;
  * the non-interference theorem's prediction on the real step(): toggling one bit leaves every field of the
    committed `unaffected` list bit-identical;
Oracle (the property itself, a test): mjw.forward / mjw.step against mujoco.mj_forward / mj_step under the same
flags on a fixed feature-rich model, a directed flag model and random models, for every single flag, directed
pairs and random subsets."""

from __future__ import annotations

import json
import os
import re
import subprocess
import sys
import time
import types as pytypes

import numpy as np

import propkit
import vlib

MANIFEST = {
  "text": "proof: (1) every bit of types.DisableBit/EnableBit is consumed somewhere in /repo and equals the MuJoCo member it is defined as; every bit of the installed MuJoCo's mjtDisableBit/mjtEnableBit that MJWarp does not list falls under put_model's rejection loop; (2) the predicate `sleeping enabled` is one predicate: every direct test of EnableBit.SLEEP also tests ISLAND except in a committed list of three functions where SLEEP alone is harmless, and every function that chooses / allocates for / consumes the sleep path tests SLEEP-and-not-ISLAND (the former crash witness SLEEP & ISLAND-disabled is a regression case); (3) for the host program regenerated from /repo and each of 15 flags read by step(): flattening with the bit's conditions decided (set / clear) equals the undecided flattening with the decided EIf nodes replaced by the chosen branch, and in an abstract footprint semantics (kernels uninterpreted, flag words refined to the bits each kernel tests) two runs whose flag words differ in that one bit agree on every field outside a computed taint set, in particular on a committed per-flag list of watched fields. tested only: that each gated contribution is the right one (differential oracle vs MuJoCo C), NATIVECCD / MULTICCD / FILTERPARENT / ISLAND / SLEEP / INVDISCRETE effects",
  "note": "trusted: Coq kernel; bin/extract_flags.py (Python ast walk + three-valued evaluator, validated every run against Python's evaluation of the same expressions); bin/extract_launch.py (field names are text: aliasing through local names is followed only for `n = expr` assignments); abstract semantics Model/Pipeline.v; MuJoCo 3.13 binary as oracle; float32 vs float64 tolerance 1e-3 relative to (1 + field magnitude)",
  "technique": "Rocq proof over tables and a stage program machine-extracted from the source (S): verified information-flow analysis + decidable checks by vm_compute; differential oracle on the implementation",
  "engine": "coq",
}

PROPS = "Props/C32.v"
KEY_SLEEP = "C32:solver.solve:sleep-enabled-island-disabled-crash"
KEY_FLUID = "C32:deriv_smooth_vel:fluid-derivative-with-passive-disabled"
KEY_AUTORESET = "C32:put_model:autoreset-rejected-but-never-resets"
KEY_ENERGY = "C32:_energy_pos:energy-zeroed-after-energy-sensor"
KEY_TWOBITS = "C32:put_model:several-unsupported-bits-raise-ValueError"

FWD = ["qacc", "qfrc_bias", "qfrc_passive", "qfrc_actuator", "qfrc_smooth", "qfrc_constraint", "sensordata", "actuator_force", "qacc_smooth"]
STEP = ["qpos", "qvel", "act"]
COUNTS = (("nacon", "ncon"), ("nefc", "nefc"), ("ne", "ne"), ("nf", "nf"), ("nl", "nl"))
# float32 (MJWarp) vs float64 (MuJoCo): |a-b| <= RTOL * (1 + max|.|) per field, the rule of bin/mjcmp.py.
RTOL = 1e-3
# a run whose MJWarp constraint solution has a relative KKT residual above this is not compared (converged runs: ~1e-6)
SOLVER_RESID = 1e-3

FLAG_XML = """
<mujoco>
  <option timestep="0.002" integrator="Euler"/>
  <default><geom solref="0.003 1"/></default>
  <worldbody>
    <geom name="floor" type="plane" size="5 5 .1"/>
    <body name="ball" pos="0 0 0.095"><freejoint/><geom name="gball" type="sphere" size="0.1" mass="0.5"/></body>
    <body name="cap" pos="0.5 0 0.048" euler="0 90 0"><freejoint/><geom name="gcap" type="capsule" size="0.05 0.12" mass="0.3" solref="0.02 1"/></body>
    <body name="l0" pos="0 0.6 0.8">
      <joint name="h0" type="hinge" axis="0 1 0" damping="0.4" stiffness="3" springref="0.2" armature="0.01" frictionloss="0.08" limited="true" range="-0.5 0.15" actuatorgravcomp="true"/>
      <geom name="g0" type="capsule" fromto="0 0 0 0.3 0 0" size="0.04" mass="0.4" contype="0" conaffinity="0"/>
      <body name="l1" pos="0.3 0 0" gravcomp="0.7">
        <joint name="h1" type="hinge" axis="0 1 0" damping="0.2" frictionloss="0.03" actuatorgravcomp="true"/>
        <joint name="s1" type="slide" axis="1 0 0" stiffness="30" damping="2" limited="true" range="-0.05 0.02"/>
        <geom name="g1" type="capsule" fromto="-0.05 0 0 0.25 0 0" size="0.035" mass="0.3"/>
        <site name="e1" pos="0.25 0 0"/>
        <body name="l2" pos="0.25 0 0"><joint name="b2" type="ball" damping="0.05" limited="true" range="0 0.4"/><geom name="g2" type="sphere" size="0.05" pos="0.08 0 0" mass="0.2"/><site name="e2" pos="0.08 0 0"/></body>
      </body>
    </body>
    <body name="p" pos="-0.6 -0.5 0.9"><joint name="hp" type="hinge" axis="1 0 0" damping="0.1"/><geom type="sphere" size="0.05" pos="0 0 -0.3" mass="0.3" contype="0" conaffinity="0"/><site name="sp" pos="0 0 -0.3"/></body>
  </worldbody>
  <tendon>
    <fixed name="tf" limited="true" range="-0.2 0.1" stiffness="4" damping="0.3" frictionloss="0.05"><joint joint="h0" coef="1"/><joint joint="h1" coef="-0.6"/></fixed>
    <spatial name="ts" stiffness="6" damping="0.2" springlength="0.3"><site site="e1"/><site site="sp"/></spatial>
  </tendon>
  <equality>
    <joint name="ej" joint1="h1" joint2="hp" polycoef="0.05 0.5 0 0 0" solref="0.003 1"/>
    <connect name="ec" body1="l2" body2="p" anchor="0.08 0 0" solref="0.01 1"/>
  </equality>
  <actuator>
    <position name="ap" joint="h0" kp="9" kv="0.4" ctrllimited="true" ctrlrange="-0.3 0.3" forcelimited="true" forcerange="-5 5"/>
    <velocity name="av" joint="h1" kv="0.8" ctrllimited="true" ctrlrange="-1 1"/>
    <general name="ag" joint="s1" dyntype="filter" dynprm="0.04 0 0" gainprm="4 0 0" biastype="affine" biasprm="0.2 -1 -0.1" ctrllimited="true" ctrlrange="-0.5 0.5"/>
    <motor name="am" joint="hp" gear="0.7"/>
  </actuator>
  <sensor>
    <jointpos joint="h0"/><jointvel joint="h1"/><actuatorfrc actuator="ap"/><framepos objtype="site" objname="e2"/><framelinvel objtype="site" objname="e2"/>
    <accelerometer site="e1"/><tendonpos tendon="ts"/><jointlimitfrc joint="h0"/>
  </sensor>
</mujoco>
"""

FLUID_XML = """<mujoco><option timestep="0.01" density="1000" viscosity="0.5" integrator="implicitfast"/><worldbody>
<body pos="0 0 1"><joint name="a" type="hinge" axis="0 1 0" damping="0.2"/><geom type="ellipsoid" size="0.1 0.05 0.02" pos="0.3 0 0" fluidshape="ellipsoid"/>
<body pos="0.3 0 0"><joint name="b" type="hinge" axis="1 0 0" damping="0.1"/><geom type="box" size="0.1 0.05 0.03" pos="0.3 0 0"/></body></body></worldbody></mujoco>"""

# directed model for the integrator x flag cross product: a medium (fluid forces: ellipsoid model or inertia-box
# model), joint springs, linear and polynomial joint dampers (one dof with zero linear part), a spatial and a fixed
# tendon with stiffness and damping, actuators (clamped motor, velocity and position servo, tendon motor).  The dense
# medium makes the implicit integrators' fluid derivative matter; RK4 (explicit) is only stable in the light one.
FLUID_TMPL = """
<mujoco>
  <option density="{rho}" viscosity="{mu}" wind="0.3 -0.2 0.1" timestep="0.004"/>
  <default><geom contype="0" conaffinity="0"/></default>
  <worldbody>
    <body name="float" pos="0 0 1">
      <freejoint/>
      <geom type="ellipsoid" size=".08 .04 .02" mass="0.4" {fs}/>
      <body pos="0.12 0 0">
        <joint name="h1" type="hinge" axis="0 1 0" stiffness="2" damping="0.03 0.004 0.002" springref="0.2"/>
        <geom type="box" size=".06 .03 .004" euler="20 0 0" mass="0.2" {fs}/>
        <site name="s1" pos="0.05 0 0.02"/>
      </body>
      <body pos="-0.12 0 0">
        <joint name="h2" type="hinge" axis="0 0 1" stiffness="1" damping="0 0.002 0.001"/>
        <geom type="capsule" size=".02 .05" euler="0 70 0" mass="0.2"/>
        <site name="s2" pos="-0.05 0 0.02"/>
      </body>
    </body>
    <body name="arm" pos="1 0 1">
      <joint name="a1" type="hinge" axis="0 1 0" damping="0.1" armature="0.01"/>
      <geom type="box" size=".1 .05 .005" pos=".1 0 0" mass="0.3" {fs}/>
      <body pos=".2 0 0">
        <joint name="a2" type="slide" axis="0 0 1" stiffness="5" damping="0.5"/>
        <geom type="sphere" size=".04" mass="0.1"/>
      </body>
    </body>
  </worldbody>
  <tendon>
    <spatial name="t" stiffness="3" damping="0.4" springlength="0.2"><site site="s1"/><site site="s2"/></spatial>
    <fixed name="tf" stiffness="2" damping="0.3"><joint joint="a1" coef="1"/><joint joint="a2" coef="-0.5"/></fixed>
  </tendon>
  <actuator>
    <motor joint="h1" gear="0.5" ctrllimited="true" ctrlrange="-1 1"/>
    <velocity joint="a1" kv="0.8"/>
    <position name="pa2" joint="a2" kp="4" kv="0.5" ctrllimited="true" ctrlrange="-0.5 0.5"/>
    <motor tendon="tf" gear="0.3"/>
  </actuator>
  <sensor><jointpos joint="h1"/><jointvel joint="a1"/><actuatorfrc actuator="pa2"/><tendonvel tendon="t"/></sensor>
  <keyframe>
    <key qpos="0 0 1 1 0 0 0 0.3 -0.2 0.4 0.05" qvel="1.5 -1 0.5 2 -1.5 3 1 -2 2.5 0.4" ctrl="1.7 0.6 -0.9 0.5"/>
  </keyframe>
</mujoco>
"""
FLUID_DENSE_ELLIPSOID = FLUID_TMPL.format(rho=1000, mu=0.9, fs='fluidshape="ellipsoid"')
FLUID_DENSE_BOX = FLUID_TMPL.format(rho=1000, mu=0.9, fs="")
FLUID_LIGHT = FLUID_TMPL.format(rho=2, mu=0.002, fs='fluidshape="ellipsoid"')
INTEGRATORS = ("Euler", "implicitfast", "implicit", "RK4")

SLEEP_XML = """<mujoco><worldbody><geom type="plane" size="5 5 .1"/><body pos="0 0 0.2"><freejoint/><geom size="0.1"/></body>
<body pos="1 0 0.5"><joint type="hinge" axis="0 1 0"/><geom size="0.1" pos="0.2 0 0"/></body></worldbody></mujoco>"""

AUTORESET_XML = """<mujoco><option timestep="0.01" gravity="0 0 0"/><worldbody><body><joint name="a" type="slide" axis="1 0 0"/><geom size="0.1"/></body></worldbody></mujoco>"""

ENERGY_XML = """<mujoco><worldbody><body pos="0 0 1"><joint type="hinge" axis="0 1 0" stiffness="2"/><geom size="0.1" pos="0.3 0 0"/></body></worldbody>
<sensor><e_potential/><e_kinetic/></sensor></mujoco>"""


# ---------------------------------------------------------------------------------------------------
def flag_tables():
  import mujoco

  dis = {k[7:]: int(v) for k, v in mujoco.mjtDisableBit.__members__.items() if k.startswith("mjDSBL_")}
  enb = {k[7:]: int(v) for k, v in mujoco.mjtEnableBit.__members__.items() if k.startswith("mjENBL_")}
  return dis, enb


def _quiet():
  import warp as wp

  try:
    wp.config.quiet = True
  except Exception:
    pass


# ---- extractor validation ---------------------------------------------------------------------------
class _Unknown:
  """Stands for every sub-expression the extractor treats as Unknown; its truth value is the knob."""

  def __init__(self, truth):
    self._t = truth

  def __getattr__(self, n):
    return self

  def __call__(self, *a, **k):
    return self

  def __getitem__(self, k):
    return self

  def __bool__(self):
    return self._t

  def _cmp(self, o):
    return self._t

  __eq__ = __ne__ = __lt__ = __gt__ = __le__ = __ge__ = _cmp
  __hash__ = None

  def __add__(self, o):
    return self

  __radd__ = __sub__ = __rsub__ = __mul__ = __rmul__ = __and__ = __rand__ = __or__ = __ror__ = __add__

  def __contains__(self, o):
    return self._t


class _Model:
  """m / mjm: real integer flag words, every other attribute Unknown."""

  def __init__(self, opt, unk):
    self.opt = opt
    self._u = unk

  def __getattr__(self, n):
    return self.__dict__["_u"]


class _Env(dict):
  unknown = None

  def __missing__(self, k):
    return self.unknown


def validate_tables(res, data):
  """Each row of each host-test truth table against Python's evaluation of the same source text on the real
  IntFlag enums: definite rows must evaluate to that value whatever the unknown atoms are (both knob positions),
  rows the extractor calls Unknown must be reachable with both values or at least not contradict."""
  import mujoco

  from mujoco_warp._src import types as T

  values = {(en, nm): v for en, rows in data["enums"].items() for nm, v, _ in rows}
  locals_by_fn = {}
  for x in data["locals"]:
    locals_by_fn.setdefault(x["fn"], []).append(x)
  bad, n = [], 0
  for c in data["conds"]:
    flags = [tuple(f.split(".")) for f in c["flags"]]
    for bits, val in c["table"]:
      dis = sum(values[f] for f, b in zip(flags, bits) if b and f[0] == "DisableBit")
      enb = sum(values[f] for f, b in zip(flags, bits) if b and f[0] == "EnableBit")
      outs = []
      for knob in (False, True):
        unk = _Unknown(knob)
        m = _Model(pytypes.SimpleNamespace(disableflags=dis, enableflags=enb), unk)
        env = _Env({"m": m, "mjm": m, "d": unk, "DisableBit": T.DisableBit, "EnableBit": T.EnableBit, "types": T, "mujoco": mujoco, "bool": bool, "int": int})
        env.unknown = unk
        try:
          for x in sorted(locals_by_fn.get(c["fn"], []), key=lambda q: q["line"]):
            if x["line"] <= c["line"]:
              env[x["name"]] = eval(x["expr"], {"__builtins__": {"bool": bool, "int": int}}, env)
          outs.append(bool(eval(c["cond"], {"__builtins__": {"bool": bool, "int": int}}, env)))
        except Exception as e:  # evaluation of the real text failed: count as disagreement
          outs.append(f"{type(e).__name__}: {e}")
      n += 1
      ok = (val is True and outs == [True, True]) or (val is False and outs == [False, False]) or (val not in (True, False))
      if ok and val in (True, False):
        res.nontrivial(("table", c["fn"], c["cond"], tuple(bits)))
      if not ok:
        bad.append({"fn": c["fn"], "cond": c["cond"], "bits": dict(zip(c["flags"], bits)), "extractor": str(val), "python": [str(o) for o in outs]})
  res.count(n)
  return bad, n


# ---- put_model rejection ----------------------------------------------------------------------------
def check_rejection(res, data):
  import mujoco

  import mujoco_warp as mjw

  ours = {en: {nm: v for nm, v, _ in rows} for en, rows in data["enums"].items()}
  m0 = mujoco.MjModel.from_xml_string(SLEEP_XML)
  bad = []
  for en, attr, prefix in (("DisableBit", "disableflags", "mjDSBL_"), ("EnableBit", "enableflags", "mjENBL_")):
    for name, val in data["mujoco"][en]:
      short = name[len(prefix) :]
      m = mujoco.MjModel.from_xml_string(SLEEP_XML)
      setattr(m.opt, attr, int(val))
      try:
        mjw.put_model(m)
        outcome = "accepted"
      except NotImplementedError:
        outcome = "rejected"
      except Exception as e:
        outcome = f"other:{type(e).__name__}"
      expect = "accepted" if short in ours[en] else "rejected"
      res.count()
      res.nontrivial(("reject", en, short))
      if outcome != expect:
        bad.append({"enum": en, "bit": short, "value": int(val), "expected": expect, "observed": outcome})
  # two unsupported bits at once (the message is built from mj_type(unsupported).name)
  dis, _ = flag_tables()
  m = mujoco.MjModel.from_xml_string(SLEEP_XML)
  m.opt.disableflags = dis["MIDPHASE"] | dis["AUTORESET"]
  try:
    mjw.put_model(m)
    both = "accepted"
  except NotImplementedError:
    both = "rejected"
  except Exception as e:
    both = f"other:{type(e).__name__}: {e}"
  res.count()
  if both != "rejected":
    bad.append({"enum": "DisableBit", "bit": "MIDPHASE+AUTORESET", "value": dis["MIDPHASE"] | dis["AUTORESET"], "expected": "rejected", "observed": both, "key": KEY_TWOBITS})
  del m0
  return bad


# ---- lists computed inside Coq ------------------------------------------------------------------------
def coq_lists():
  """{flag: [unaffected fields]} and {flag: [tainted d.* fields]} evaluated by vm_compute."""
  name = "Corr/c32_lists.v"
  txt = (
    "From Coq Require Import String List Bool.\n"
    "From VF Require Import Model.Pipeline Gen.Skel_pipeline Model.PipelineFacts Gen.Skel_flags Model.Flags.\n"
    "Import ListNotations.\nLocal Open Scope string_scope.\n"
    "Eval vm_compute in (map (fun f => (f, unaffected f)) step_flags).\n"
  )
  with open(os.path.join(vlib.COQ, name), "w") as fh:
    fh.write(txt)
  ok, out = vlib.coqc(name, timeout=600)
  for ext in (".v", ".vo", ".vok", ".vos", ".glob"):
    try:
      os.remove(os.path.join(vlib.COQ, name[:-2] + ext))
    except FileNotFoundError:
      pass
  if not ok:
    raise RuntimeError("c32_lists.v failed:\n" + out[-1500:])
  flat = " ".join(out.split())
  lists = {}
  for mm in re.finditer(r'\("((?:Disable|Enable)Bit\.[A-Z]+)",\s*\[([^\]]*)\]\)', flat):
    lists[mm.group(1)] = re.findall(r'"([^"]+)"', mm.group(2))
  return lists


def _field(dd, name):
  o = dd
  for p in name.split(".")[1:]:
    o = getattr(o, p)
  return o.numpy().copy() if hasattr(o, "numpy") else np.asarray(o)


def bit_value(flag):
  dis, enb = flag_tables()
  en, nm = flag.split(".")
  return (dis[nm], 0) if en == "DisableBit" else (0, enb[nm])


def noninterference_case(xml, flag, fields, seed, integrator=None):
  """Real step() with the bit clear and set from identical Data: fields of `fields` that differ."""
  import mujoco

  import batchkit
  import mujoco_warp as mjw

  outs = []
  for on in (False, True):
    m = mujoco.MjModel.from_xml_string(xml)
    if integrator is not None:
      m.opt.integrator = integrator
    dv, ev = bit_value(flag)
    m.opt.disableflags = dv if on else 0
    m.opt.enableflags = ev if on else 0
    ds = batchkit.random_states(np.random.default_rng(seed), m, 1)[0]
    if m.nu:
      ds.ctrl[:] = np.random.default_rng(seed + 1).normal(0, 1.0, m.nu).astype(np.float32)
    mm = mjw.put_model(m)
    dd = mjw.put_data(m, ds, nconmax=64, njmax=256)
    mjw.step(mm, dd)
    outs.append({f: _field(dd, f) for f in fields})
  return [f for f in fields if not np.array_equal(outs[0][f], outs[1][f], equal_nan=True)], outs


# ---- oracle ---------------------------------------------------------------------------------------------
def random_xml(k):
  import models

  rng = np.random.default_rng(vlib.seed() + 3200 + k)
  integ = ["Euler", "implicitfast"][k % 2]
  o = models.Opts(
    nbody=(2, 6), plane=True, contacts=True, actuators=int(rng.integers(0, 4)), equality=int(rng.integers(0, 2)), limits=0.4, frictionloss=0.3,
    tendons=int(rng.integers(0, 2)), geom_types=("sphere", "capsule"), joint_types=("hinge", "slide", "ball", "free") if integ == "Euler" else ("hinge", "slide", "ball"),
    option=f'integrator="{integ}" jacobian="{["dense", "sparse"][(k // 2) % 2]}" cone="{["pyramidal", "elliptic"][(k // 4) % 2]}"',
  )  # fmt: skip
  xml, info = models.random_model(rng, o)
  sens = ""
  for jn, jt, _b in info["joints"]:
    if jt in ("hinge", "slide"):
      sens += f'<jointpos joint="{jn}"/><jointvel joint="{jn}"/>'
  if info["joints"]:
    jb = "b%d" % info["joints"][0][2]
    sens += f'<framepos objtype="body" objname="{jb}"/><framelinvel objtype="body" objname="{jb}"/><framelinacc objtype="body" objname="{jb}"/>'
  sens += "".join(f'<actuatorfrc actuator="{a}"/>' for a in info.get("actuators", []))
  return xml.replace("</mujoco>", f"<sensor>{sens}</sensor></mujoco>")


def make_state(xml, kind, seed):
  import mujoco

  import batchkit
  import models

  m = mujoco.MjModel.from_xml_string(xml)
  rng = np.random.default_rng(seed)
  if kind == "near":
    ds = batchkit.random_states(rng, m, 1)[0]
    if m.nu:
      ds.ctrl[:] = rng.normal(0, 1.0, m.nu).astype(np.float32)
  elif kind == "key":
    ds = mujoco.MjData(m)
    mujoco.mj_resetDataKeyframe(m, ds, 0)
    ds.qvel[:] = (ds.qvel + rng.normal(0, 0.1, m.nv)).astype(np.float32)
  else:
    ds = mujoco.MjData(m)
    models.random_state(rng, m, ds, vel_scale=0.5, unnormalized=False)
  return ds


def integrator_value(name):
  import mujoco

  I = mujoco.mjtIntegrator
  return {"Euler": I.mjINT_EULER, "implicitfast": I.mjINT_IMPLICITFAST, "implicit": I.mjINT_IMPLICIT, "RK4": I.mjINT_RK4}[name]


def oracle_case(xml, kind, seed, dis, enb, nstep=2, integrator=None):
  """Returns dict(fwd=[(field, err)], counts={..}, step=[..], skipped=..)."""
  import mujoco

  import mjcmp
  import mujoco_warp as mjw

  m = mujoco.MjModel.from_xml_string(xml)
  if integrator is not None:
    m.opt.integrator = integrator_value(integrator)
  m.opt.disableflags, m.opt.enableflags = int(dis), int(enb)
  ds = make_state(xml, kind, seed)
  mm = mjw.put_model(m)
  dd = mjw.put_data(m, ds, nconmax=128, njmax=512)
  mjw.forward(mm, dd)
  mujoco.mj_forward(m, ds)
  out = {"fwd": [], "counts": {}, "step": [], "skipped": ""}
  # MJWarp's own KKT residual M qacc - qfrc_smooth - qfrc_constraint, relative to the forces: when its constraint
  # solver stopped far from the optimum (deep-penetration contact problems; MuJoCo converges on them) a difference
  # from MuJoCo is a solver-convergence matter (C06), whatever the flags
  out["solver_residual"] = 0.0
  if int(dd.nefc.numpy()[0]) > 0 and m.nv:
    ma, fs, fc = (x.numpy()[0].astype(np.float64) for x in (dd.efc.Ma, dd.qfrc_smooth, dd.qfrc_constraint))
    out["solver_residual"] = float(np.max(np.abs(ma - fs - fc)) / (1.0 + max(np.max(np.abs(ma)), np.max(np.abs(fs)), np.max(np.abs(fc)))))
  for a, b in COUNTS:
    x, y = int(np.asarray(getattr(dd, a).numpy()).reshape(-1)[0]), int(getattr(ds, b))
    if x != y:
      out["counts"][a] = (x, y)
  # same number of contacts but a different contact GEOMETRY (distance, position, normal or tangent frame: the
  # friction pyramid depends on the tangents) is a collision matter (C04 / C20), whatever the flags
  out["contact_geometry_differs"] = False
  nc = int(ds.ncon)
  if nc and "nacon" not in out["counts"]:
    def cset(geom, dist, pos, frame):
      return sorted((tuple(int(g) for g in geom[i]), round(float(dist[i]), 4), tuple(np.round(np.asarray(pos[i], dtype=np.float64), 4) + 0.0), tuple(np.round(np.asarray(frame[i], dtype=np.float64).reshape(-1), 3) + 0.0)) for i in range(nc))
    cw = cset(dd.contact.geom.numpy(), dd.contact.dist.numpy(), dd.contact.pos.numpy(), dd.contact.frame.numpy())
    cm = cset(ds.contact.geom, ds.contact.dist, ds.contact.pos, ds.contact.frame)
    for a, b in zip(cw, cm):
      if a[0] != b[0] or abs(a[1] - b[1]) > 2e-4 or max(abs(x - y) for x, y in zip(a[2], b[2])) > 2e-4 or max(abs(x - y) for x, y in zip(a[3], b[3])) > 2e-3:
        out["contact_geometry_differs"] = True
  fwd = [] if out["counts"] else mjcmp.compare_fields(dd, ds, FWD, rtol=RTOL)  # different active sets = different problems
  out["fwd"] = fwd
  e = dd.energy.numpy()[0].astype(np.float64)
  if np.max(np.abs(e - ds.energy)) > RTOL * (1 + np.max(np.abs(ds.energy))):
    out["fwd"].append(("energy", float(np.max(np.abs(e - ds.energy)))))
  for _ in range(nstep):
    mjw.step(mm, dd)
    mujoco.mj_step(m, ds)
  if int(np.max(dd.overflow.numpy())) != 0:
    return {"fwd": [], "counts": {}, "step": [], "skipped": "overflow"}
  if out["counts"]:
    return out
  W = mujoco.mjtWarning
  # MuJoCo checks for divergence at the START of a step: also discard runs whose MuJoCo state has already blown up
  # (explicit RK4 with springs / clamps switched off); a blow-up on the MJWarp side only is still compared
  mj_state = np.concatenate([ds.qpos, ds.qvel, ds.qacc])
  if any(ds.warning[w].number for w in (W.mjWARN_BADQACC, W.mjWARN_BADQVEL, W.mjWARN_BADQPOS)) or not np.all(np.isfinite(mj_state)) or np.max(np.abs(mj_state)) > 1e6:
    out["skipped"] = "mujoco-unstable"
    return out
  out["step"] = mjcmp.compare_fields(dd, ds, STEP, rtol=RTOL)
  out["ncon"], out["nefc"] = int(ds.ncon), int(ds.nefc)
  return out


def subsets(rng, dis, enb, n_random):
  sup_d = [k for k in dis if k not in ("MIDPHASE", "AUTORESET")]
  sup_e = ["ENERGY", "INVDISCRETE"]
  out = [((), 0, 0)]
  out += [((f,), dis[f], 0) for f in sup_d] + [((f,), 0, enb[f]) for f in sup_e]
  for a, b in (("SPRING", "DAMPER"), ("EULERDAMP", "DAMPER"), ("CONSTRAINT", "CONTACT"), ("GRAVITY", "ACTUATION"), ("SPRING", "GRAVITY"), ("ACTUATION", "DAMPER"), ("LIMIT", "FRICTIONLOSS"), ("EQUALITY", "REFSAFE")):
    out.append(((a, b), dis[a] | dis[b], enb["ENERGY"]))
  # every subset of the bits the integrator guards mention (forward.implicit: ACTUATION, SPRING, DAMPER;
  # forward.euler: EULERDAMP, DAMPER)
  grp = ("ACTUATION", "SPRING", "DAMPER", "EULERDAMP")
  for k in range(1, 16):
    fs = tuple(f for j, f in enumerate(grp) if (k >> j) & 1)
    if len(fs) >= 2 and not any(set(fs) == set(o[0]) for o in out):
      out.append((fs, sum(dis[f] for f in fs), 0))
  for _ in range(n_random):
    fd = [f for f in sup_d if rng.random() < 0.3]
    fe = [f for f in sup_e if rng.random() < 0.5]
    out.append((tuple(fd + fe), sum(dis[f] for f in fd), sum(enb[f] for f in fe)))
  return out


# ---- directed findings ------------------------------------------------------------------------------------
def fluid_case():
  import mujoco

  import mujoco_warp as mjw

  dis, _ = flag_tables()
  out = {}
  for label, flags in (("none", 0), ("DAMPER", dis["DAMPER"]), ("SPRING|DAMPER", dis["SPRING"] | dis["DAMPER"]), ("SPRING|DAMPER|ACTUATION", dis["SPRING"] | dis["DAMPER"] | dis["ACTUATION"])):
    m = mujoco.MjModel.from_xml_string(FLUID_XML)
    m.opt.disableflags = flags
    d = mujoco.MjData(m)
    d.qvel[:] = [3.0, -2.0]
    mm, dd = mjw.put_model(m), mjw.put_data(m, d)
    mjw.step(mm, dd)
    mujoco.mj_step(m, d)
    out[label] = {"qvel_mjw": dd.qvel.numpy()[0].tolist(), "qvel_mujoco": d.qvel.tolist(), "qfrc_fluid_mjw": dd.qfrc_fluid.numpy()[0].tolist(), "qfrc_fluid_mujoco": d.qfrc_fluid.tolist()}
  return {"xml": FLUID_XML, "qvel0": [3.0, -2.0], "runs": out}


SLEEP_SCRIPT = r"""
import sys, numpy as np, mujoco
import warp as wp
wp.config.quiet = True
import mujoco_warp as mjw
m = mujoco.MjModel.from_xml_string(sys.argv[1])
m.opt.enableflags = int(mujoco.mjtEnableBit.mjENBL_SLEEP)
m.opt.disableflags = int(mujoco.mjtDisableBit.mjDSBL_ISLAND) if sys.argv[2] == "1" else 0
d = mujoco.MjData(m)
d.qpos[2] = 0.095  # the ball touches the floor: the broadphase sleep filter sees a real pair
mm = mjw.put_model(m)
if sys.argv[3] == "put":
  dd = mjw.put_data(m, d)
else:
  dd = mjw.make_data(m)
  q = dd.qpos.numpy(); q[0, 2] = 0.095; dd.qpos.assign(q)
worst, ncon = 0.0, []
def both(n):
  global worst
  for _ in range(n):
    mjw.step(mm, dd)
    mujoco.mj_step(m, d)
    worst = max(worst, float(np.max(np.abs(dd.qacc.numpy()[0] - d.qacc)) / (1.0 + np.max(np.abs(d.qacc)))))
    ncon.append((int(dd.nacon.numpy()[0]), int(d.ncon)))
both(3)
# reset_data tests SLEEP alone (sleep_only_harmless): reset both sides and continue
mjw.reset_data(mm, dd)
mujoco.mj_resetData(m, d)
q = dd.qpos.numpy(); q[0, 2] = 0.095; dd.qpos.assign(q); d.qpos[2] = 0.095
both(2)
print("RESULT", worst, int(all(a == b for a, b in ncon)), int(max(a for a, _ in ncon)))
"""


def sleep_start():
  """The crash cannot be caught in-process: each run is a subprocess (started early, collected at the end)."""
  procs = {}
  for island_off, how in (("1", "put"), ("1", "make")):
    procs[f"island_disabled={island_off},{how}_data"] = subprocess.Popen(
      [vlib.PY, "-c", SLEEP_SCRIPT, SLEEP_XML, island_off, how], stdout=subprocess.PIPE, stderr=subprocess.DEVNULL, text=True, env=dict(os.environ)
    )
  return procs


def sleep_collect(procs):
  out = {}
  for k, p in procs.items():
    try:
      so, _ = p.communicate(timeout=600)
    except subprocess.TimeoutExpired:
      p.kill()
      so = ""
    mm = re.search(r"RESULT (\S+) (\d) (\d+)", so or "")
    out[k] = {"returncode": p.returncode, "max_abs_qacc_diff_vs_mujoco": float(mm.group(1)) if mm else None, "contact_counts_equal": bool(int(mm.group(2))) if mm else None, "max_contacts": int(mm.group(3)) if mm else None}
  return {"xml": SLEEP_XML, "enableflags": "SLEEP", "disableflags": "ISLAND", "runs": out}


def sleep_case():
  return sleep_collect(sleep_start())


def autoreset_case():
  import mujoco

  import mujoco_warp as mjw

  dis, _ = flag_tables()
  out = {}
  for label, flags in (("default", 0), ("AUTORESET-disabled", dis["AUTORESET"])):
    m = mujoco.MjModel.from_xml_string(AUTORESET_XML)
    m.opt.disableflags = flags
    d = mujoco.MjData(m)
    d.qpos[:], d.qvel[:] = [0.5], [1e12]
    for _ in range(2):
      mujoco.mj_step(m, d)
    r = {"mujoco_qpos": d.qpos.tolist(), "mujoco_qvel": d.qvel.tolist()}
    try:
      mm = mjw.put_model(m)
      d0 = mujoco.MjData(m)
      d0.qpos[:], d0.qvel[:] = [0.5], [1e12]
      dd = mjw.put_data(m, d0)
      for _ in range(2):
        mjw.step(mm, dd)
      r["mjw_qpos"], r["mjw_qvel"] = dd.qpos.numpy()[0].tolist(), dd.qvel.numpy()[0].tolist()
    except NotImplementedError as e:
      r["put_model"] = f"NotImplementedError: {e}"
    out[label] = r
  return {"xml": AUTORESET_XML, "qpos0": [0.5], "qvel0": [1e12], "runs": out}


def energy_case():
  import mujoco

  import mujoco_warp as mjw

  _, enb = flag_tables()
  out = {}
  for label, flags in (("ENERGY-off", 0), ("ENERGY-on", enb["ENERGY"])):
    m = mujoco.MjModel.from_xml_string(ENERGY_XML)
    m.opt.enableflags = flags
    d = mujoco.MjData(m)
    d.qpos[:], d.qvel[:] = [0.4], [1.5]
    mm, dd = mjw.put_model(m), mjw.put_data(m, d)
    mjw.forward(mm, dd)
    mujoco.mj_forward(m, d)
    out[label] = {"energy_mjw": dd.energy.numpy()[0].tolist(), "energy_mujoco": d.energy.tolist(), "sensordata_mjw": dd.sensordata.numpy()[0].tolist(), "sensordata_mujoco": d.sensordata.tolist()}
  return {"xml": ENERGY_XML, "qpos0": [0.4], "qvel0": [1.5], "runs": out}


def _close(a, b, rtol=RTOL):
  a, b = np.asarray(a, dtype=np.float64), np.asarray(b, dtype=np.float64)
  return bool(np.all(np.isfinite(a)) and np.max(np.abs(a - b)) <= rtol * (1 + np.max(np.abs(b))))


# ---------------------------------------------------------------------------------------------------
def run(res):
  import batchkit

  _quiet()
  quick = res.tier == "quick"
  res.rule = (
    "proof obligations over the regenerated tables/program; extractor truth tables re-evaluated by Python on the real enums (every row); put_model called with every MuJoCo flag bit; "
    "non-interference predictions replayed on the real step() (bit clear vs set, bitwise comparison of the committed unaffected fields) for each flag x {RICH_XML, FLAG_XML} x {Euler, implicitfast}; "
    "oracle: mjw.forward/step vs mujoco.mj_forward/mj_step under identical flags on RICH_XML, FLAG_XML (each under several integrators), a fluid model (dense / light medium, ellipsoid / inertia-box fluid forces, springs, linear + polynomial dampers, tendons, actuators) under Euler, implicitfast, implicit and RK4 with the SAME flag subsets (singles, 8 pairs, all subsets of ACTUATION/SPRING/DAMPER/EULERDAMP, random subsets), and random models (plane + sphere/capsule contacts, actuators, tendons, equality, limits, frictionloss) "
    "for each single flag, 8 directed pairs and random subsets; fields qacc, qfrc_*, actuator_force, sensordata, energy, counts ncon/nefc/ne/nf/nl, after 2 steps qpos/qvel/act; tolerance 1e-3*(1+|field|)"
  )
  t0 = time.time()

  def phase(name):
    vlib.log(f"[C32] {name}: {time.time() - t0:.1f} s")

  sleep_procs = sleep_start()
  ok, trs, failing = propkit.prove(res, PROPS, gen_names=["Skel_pipeline", "Skel_flags"])
  phase("proof built")
  found = False
  sk = trs.get("Skel_flags")
  dis, enb = flag_tables()

  # ---- tie 1: extractor tables vs Python ---------------------------------------------------------------
  tables_ok = rej_ok = pred_ok = True
  if sk is not None:
    bad, n = validate_tables(res, sk.data)
    tables_ok = not bad
    res.obligation("correspondence: extractor truth tables vs Python evaluation of the same tests on the real IntFlag enums", tables_ok, f"{n} rows of {len(sk.data['conds'])} host tests, {len(bad)} disagree" + (": " + json.dumps(bad[:3]) if bad else ""))
    res.sample({"kind": "truth-table", "example": sk.data["conds"][0]["cond"], "rows": sk.data["conds"][0]["table"]})
    # ---- tie 2: put_model rejection ---------------------------------------------------------------------
    rbad = check_rejection(res, sk.data)
    # the obligation is about single bits (the table of C32_flag_table_complete); the combination case has its own
    # finding key and is reported below as a violation with its input
    single_bad = [r for r in rbad if not r.get("key")]
    rej_ok = not single_bad
    res.obligation("put_model on the real code: every unlisted MuJoCo bit rejected (NotImplementedError), every listed bit accepted", rej_ok, json.dumps(single_bad[:4]) if single_bad else f"{sum(len(v) for v in sk.data['mujoco'].values())} bits")
    for r in rbad[:3]:
      found = True
      res.violation(r.get("key") or f"C32:put_model:flag-bit-{r['bit']}:{r['observed'].split(':')[0]}", f"put_model with {r['enum']}.{r['bit']}: expected {r['expected']} (NotImplementedError), observed {r['observed']}", r)

  phase("tables + rejection")
  # ---- tie 3: the theorem's prediction on the real step() -------------------------------------------------
  if ok:
    import mujoco

    lists = coq_lists()
    preds_bad = []
    models_ = [("RICH", batchkit.RICH_XML), ("FLAG", FLAG_XML)]
    integs = [("Euler", mujoco.mjtIntegrator.mjINT_EULER), ("implicitfast", mujoco.mjtIntegrator.mjINT_IMPLICITFAST)]
    for flag, fields in sorted(lists.items()):
      for mi, (mname, xml) in enumerate(models_):
        for ii, (iname, integ) in enumerate(integs):
          if quick and (mi + ii) % 2 == 1:
            continue
          differ, outs = noninterference_case(xml, flag, fields, vlib.seed() + 17, integ)
          res.count()
          res.nontrivial(("nonint", flag, mname, iname))
          if differ:
            preds_bad.append({"flag": flag, "model": mname, "integrator": iname, "fields_that_changed": differ, "xml": xml, "seed": vlib.seed() + 17})
    pred_ok = not preds_bad
    res.obligation("correspondence: fields of `unaffected flag` are bit-identical on the real step() with the bit clear / set", pred_ok, f"{len(lists)} flags, {len(preds_bad)} predictions failed" + (": " + json.dumps([{k: v for k, v in p.items() if k != 'xml'} for p in preds_bad[:3]]) if preds_bad else ""))
    res.sample({"kind": "non-interference", "flag": "DisableBit.GRAVITY", "unaffected": lists.get("DisableBit.GRAVITY", [])[:12]})
    for p in preds_bad[:3]:
      found = True
      res.violation(f"C32:step:flag-changes-field-outside-own-stage:{p['flag']}:{p['fields_that_changed'][0]}", f"toggling {p['flag']} changes {p['fields_that_changed']} on the real step() although the stage model says it cannot", p)

  phase("non-interference predictions")
  # ---- oracle vs MuJoCo --------------------------------------------------------------------------------------
  rng = np.random.default_rng(vlib.seed() + 32)
  cases = []
  nrand_fixed = 4 if quick else 100
  EI = ("Euler", "implicitfast")
  fixed = (
    ("RICH", batchkit.RICH_XML, "near", EI if quick else INTEGRATORS),
    ("FLAG", FLAG_XML, "near", ("Euler", "RK4") if quick else INTEGRATORS),
    # the fluid model under all four integrators: dense medium for the (semi-)implicit ones, light medium for RK4
    ("FLUID-dense-ellipsoid", FLUID_DENSE_ELLIPSOID, "key", EI),  # full implicit: its ellipsoid derivative differs without flags (C27)
    ("FLUID-dense-box", FLUID_DENSE_BOX, "key", ("implicit",) if quick else ("Euler", "implicitfast", "implicit")),
    ("FLUID-light", FLUID_LIGHT, "key", INTEGRATORS),
  )
  for mname, xml, kind, integs in fixed:
    ss = subsets(rng, dis, enb, nrand_fixed)  # the SAME subsets under every integrator
    for integ in integs:
      for names, dv, ev in ss:
        cases.append((f"{mname}/{integ}", xml, kind, vlib.seed() + 5, names, dv, ev, integ))
  nmodels = 8 if quick else 60
  for k in range(nmodels):
    xml = random_xml(k)
    ss = subsets(rng, dis, enb, 5 if quick else 40)
    singles = ss[1:21]
    pick = [ss[0]] + [singles[(k * 4 + j) % len(singles)] for j in range(4 if quick else len(singles))] + ss[21:]
    for names, dv, ev in pick:
      cases.append((f"random{k}", xml, "random", vlib.seed() + 7000 + k, names, dv, ev, None))
  base_bad = {}
  mism, nskip, ncount, nunconv, ngeom = [], 0, 0, 0, 0
  worst = 0.0
  for mname, xml, kind, seed, names, dv, ev, integ in cases:
    try:
      r = oracle_case(xml, kind, seed, dv, ev, integrator=integ)
    except Exception as e:
      r = {"fwd": [("exception", 0.0)], "counts": {}, "step": [], "skipped": "", "exception": f"{type(e).__name__}: {e}"}
    res.count()
    if r["skipped"]:
      nskip += 1
      continue
    bad_fields = [f for f, _ in r["fwd"]] + [f for f, _ in r["step"]] + list(r["counts"])
    if r.get("contact_geometry_differs") and not r["counts"]:
      # also without a visible mismatch: nothing on this contact set can be attributed to a flag
      nskip += 1
      ngeom += 1
      if ngeom <= 3:
        res.notes.append(f"oracle: {mname} flags {list(names)}: same contact count but different contact geometry (dist / pos / frame) in MJWarp and MuJoCo; run not attributed to a flag (collision geometry, C04 / C20)" + (f"; fields that differ: {sorted(set(bad_fields))}" if bad_fields else ""))
      if not names:
        base_bad[mname] = {"contact-geometry"}
      continue
    if bad_fields and not r["counts"] and r.get("solver_residual", 0.0) > SOLVER_RESID:
      nskip += 1
      nunconv += 1
      if nunconv <= 3:
        res.notes.append(f"oracle: {mname} flags {list(names)}: MJWarp's constraint solver stopped with relative KKT residual {r['solver_residual']:.2g} (MuJoCo converged); the difference in {sorted(bad_fields)} is not attributed to a flag (solver convergence, C06)")
      continue
    if not names:
      base_bad[mname] = set(bad_fields)  # disagreement without any flag: not a flag defect, excluded below
      if bad_fields:
        res.notes.append(f"oracle: model {mname} disagrees with MuJoCo WITHOUT any flag in {sorted(bad_fields)} (not attributed to C32; model excluded from the flag oracle)")
      continue
    if base_bad.get(mname):
      # the model already disagrees with MuJoCo without any flag (ill-conditioned state, or a defect that belongs
      # to another property): nothing observed on it can be attributed to a flag
      nskip += 1
      continue
    res.nontrivial(("oracle", mname, names))
    if r.get("nefc"):
      ncount += 1
    new = bad_fields
    if new:
      mism.append({"model": mname, "flags": list(names), "disableflags": int(dv), "enableflags": int(ev), "fields": new, "errors": [(f, e) for f, e in r["fwd"] + r["step"]][:6], "counts": r["counts"], "exception": r.get("exception"), "xml": xml, "state_kind": kind, "seed": seed, "integrator": integ})
  res.obligation("oracle: mjw.forward/step == mujoco under identical flags", not mism, f"{len(cases)} runs, {nskip} skipped (unstable / overflow / model disagrees without flags / {nunconv} MJWarp solver not converged / {ngeom} contact geometry differs), {ncount} with active constraints, {len(mism)} mismatches")
  res.sample({"kind": "oracle", "runs": len(cases), "skipped": nskip, "with_constraints": ncount})
  for f in mism[:4]:
    found = True
    res.violation("C32:oracle:" + (f["integrator"] or "model-integrator") + ":" + "+".join(f["flags"]) + ":" + f["fields"][0], f"flags {f['flags']}: MJWarp differs from MuJoCo in {f['fields']} (model {f['model']})", f)

  phase("oracle")
  # ---- directed: regression cases of repaired findings (original keys) and open findings --------------------------------------------------------------------------------
  fl = fluid_case()
  res.count(len(fl["runs"]))
  bad_runs = [k for k, v in fl["runs"].items() if not _close(v["qvel_mjw"], v["qvel_mujoco"])]
  res.sample({"kind": "directed-fluid", "mismatching_flag_sets": bad_runs})
  for k in bad_runs:
    found = True
    key = KEY_FLUID if k == "SPRING|DAMPER" else f"C32:implicitfast:fluid:{k}"
    res.violation(key, f"(regression of the finding repaired in /repo a0466b7) implicitfast with fluid forces, flags {k}: passive() switches every passive force off (fluid included) when SPRING and DAMPER are both disabled, but derivative.deriv_smooth_vel still adds the fluid velocity derivative to M - h*qDeriv, so the step differs from mujoco.mj_step", fl)
  sl = sleep_collect(sleep_procs)
  res.count(len(sl["runs"]))
  res.sample({"kind": "directed-sleep-island", "runs": sl["runs"]})
  crashed = [k for k, v in sl["runs"].items() if v["returncode"] != 0 or v["max_abs_qacc_diff_vs_mujoco"] is None or v["max_abs_qacc_diff_vs_mujoco"] > RTOL or not v["contact_counts_equal"] or not v["max_contacts"]]
  if crashed:
    found = True
    res.violation(KEY_SLEEP, f"enableflags=SLEEP with disableflags=ISLAND: step / reset_data / step fails or differs from MuJoCo ({crashed}); regression of the finding repaired in /repo 783455b (solver.solve ran the compact solver on arrays make_data/put_data allocate only when SLEEP and not ISLAND-disabled) or one of the SLEEP-only sites of C32_sleep_guard_consistent is no longer harmless", sl)
  ar = autoreset_case()
  res.count(2)
  d0 = ar["runs"]["default"]
  if "mjw_qpos" in d0 and not _close(d0["mjw_qpos"], d0["mujoco_qpos"]) and "put_model" in ar["runs"]["AUTORESET-disabled"] and _close(d0["mjw_qpos"], ar["runs"]["AUTORESET-disabled"]["mujoco_qpos"]):
    found = True
    res.violation(KEY_AUTORESET, "MJWarp never resets a diverged simulation: with the default flags MuJoCo resets (qpos back to qpos0) and MJWarp does not; MJWarp's behaviour is MuJoCo's with mjDSBL_AUTORESET set, which is exactly the setting put_model rejects", ar)
  en = energy_case()
  res.count(2)
  off = en["runs"]["ENERGY-off"]
  if not _close(off["energy_mjw"], off["energy_mujoco"]) and _close(off["sensordata_mjw"], off["sensordata_mujoco"]):
    found = True
    res.violation(KEY_ENERGY, "(regression of the finding repaired in /repo 0b3aef1) ENERGY flag off with e_potential/e_kinetic sensors: the sensors compute d.energy (as in MuJoCo), then forward._energy_pos zeroes it because the flag is off; sensordata agree, d.energy does not", en)

  phase("directed")
  if (not ok or not tables_ok or not pred_ok) and not found:
    propkit.broken_proof_violation(res, "C32 theorems / correspondences over the regenerated flag tables and host program", failing or "correspondence")
  res.assumptions += [
    "kernels are uninterpreted: the non-interference theorem holds for every interpretation that respects the wp.launch inputs/outputs lists; field granularity (one name per array); a kernel passed the whole flag word is taken to read only the bits it tests syntactically (itself or through the @wp.func it calls)",
    "field names are text: aliasing is followed only through `name = expression` assignments; Python-level state (the collision_table dictionary, kernel specialisation) has no footprint, hence NATIVECCD and MULTICCD are outside the theorem",
    "configuration of the theorem: sleep disabled, no user callbacks, no delay/interval history buffers, RK4 excluded",
    "that the gated term itself equals MuJoCo's is tested (oracle), not proved; MULTICCD has no effect on the oracle's models (no mesh / box-box CCD pairs: their distance is the known finding C20:ccd:distance-vs-mujoco)",
  ]


def replay(res, path):
  _quiet()
  r = json.load(open(path))
  data = r.get("replay") or {}
  key = r.get("key", "")
  if key == KEY_SLEEP:
    print(json.dumps(sleep_case()["runs"], indent=1))
    return 0
  if key.startswith("C32:deriv_smooth_vel") or key.startswith("C32:implicitfast:fluid"):
    print(json.dumps(fluid_case()["runs"], indent=1))
    return 0
  if key == KEY_AUTORESET:
    print(json.dumps(autoreset_case()["runs"], indent=1))
    return 0
  if key == KEY_ENERGY:
    print(json.dumps(energy_case()["runs"], indent=1))
    return 0
  if isinstance(data, dict) and "xml" in data and "disableflags" in data:
    out = oracle_case(data["xml"], data.get("state_kind", "random"), data["seed"], data["disableflags"], data["enableflags"], integrator=data.get("integrator"))
    print(json.dumps({k: (v if not isinstance(v, set) else sorted(v)) for k, v in out.items()}, indent=1, default=str))
    return 0
  if isinstance(data, dict) and "flag" in data and "xml" in data:
    import mujoco

    integ = {"Euler": mujoco.mjtIntegrator.mjINT_EULER, "implicitfast": mujoco.mjtIntegrator.mjINT_IMPLICITFAST}[data["integrator"]]
    differ, _ = noninterference_case(data["xml"], data["flag"], data["fields_that_changed"], data["seed"], integ)
    print("fields that change when toggling", data["flag"], ":", differ)
    return 0
  print("replay: no concrete input in this file (proof breakage); re-run the check")
  return 1
