"""C11 Results are independent of parallel thread order."""

from __future__ import annotations

import numpy as np

import propkit
import vlib

MANIFEST = {
  "text": "proof: one theorem per class of cross-task dependency of the step pipeline, for EVERY permutation of the task list (atomic allocation of contacts/rows/slots, many-writer branch kinematics incl. interleavings of body steps, level-parallel tree accumulation, atomic_max edge marks, island slot allocation, sleep sweep / update lists / wake kernels), plus the generic lemma 'pairwise commuting tasks => every schedule gives the same state'; waking by contact is REFUTED on the faithful model (recorded finding) and the weaker awake-set statement is proved. Kernels whose tasks touch disjoint cells are covered by re-running the machine-translated kernels on traced real launches in reverse and random task orders inside Coq (a test of the premise, not a proof)",
  "note": "trusted: models of C16/C01/C02/C28/C29/C09 and their correspondence checks; translator + Base/Kernel.v launch semantics for the permutation runs; task-atomic schedules (sub-task interleavings only for kinematics); float sums compared with tolerance as the property allows",
  "technique": "Rocq proofs over all permutations of task lists (per mechanism) + permuted re-execution of translated kernels on traced launches",
  "engine": "coq",
}

MODS = ("forward", "smooth", "passive", "solver", "sensor", "support", "derivative", "constraint", "island", "sleep")

# three spheres in a row, touching; the middle tree is put to sleep (a one-tree cycle) between two awake
# trees whose countdowns differ, so BOTH contacts wake it in the same launch with different wake values
SLEEP_XML = """<mujoco><option timestep="0.004" gravity="0 0 0"><flag sleep="enable" island="enable"/></option><worldbody>
<body pos="-0.19 0 0"><freejoint/><geom type="sphere" size=".1"/></body>
<body pos="0 0 0"><freejoint/><geom type="sphere" size=".1"/></body>
<body pos="0.19 0 0"><freejoint/><geom type="sphere" size=".1"/></body>
<body pos="0 0.5 0"><freejoint/><geom type="sphere" size=".1"/></body>
</worldbody></mujoco>"""


# three sliders A, B, C; limited fixed tendons ab and bc, both limits active: only the tree next to an
# AWAKE tree may be woken in one launch, whatever the order of the two tendon tasks
TENDON_SLEEP_XML = """<mujoco><option timestep="0.004" gravity="0 0 0"><flag sleep="enable" island="enable"/></option><worldbody>
<body pos="0 0 0"><joint name="ja" type="slide" axis="1 0 0"/><geom type="sphere" size=".05"/></body>
<body pos="0 0.3 0"><joint name="jb" type="slide" axis="1 0 0"/><geom type="sphere" size=".05"/></body>
<body pos="0 0.6 0"><joint name="jc" type="slide" axis="1 0 0"/><geom type="sphere" size=".05"/></body>
</worldbody><tendon>
<fixed name="bc" limited="true" range="-0.01 0.01"><joint joint="jb" coef="1"/><joint joint="jc" coef="-1"/></fixed>
<fixed name="ab" limited="true" range="-0.01 0.01"><joint joint="ja" coef="1"/><joint joint="jb" coef="-1"/></fixed>
</tendon></mujoco>"""


def sleep_cases(wanted):
  """Real launches of the wake kernels on hand-set sleep states (one-tree cycles, several wakers)."""
  import mujoco

  import ktrace
  import mujoco_warp as mjw
  from mujoco_warp._src import sleep

  m = mujoco.MjModel.from_xml_string(SLEEP_XML)
  d = mujoco.MjData(m)
  mujoco.mj_forward(m, d)
  mm = mjw.put_model(m)
  cases = []
  for asleep in ([[-11, 1, -3, -5], [-3, 1, -11, 3]], [[-2, 1, -9, -4], [-9, 1, -2, -4]]):
    dd = mjw.put_data(m, d, nworld=2, nconmax=8, njmax=32)
    mjw.forward(mm, dd)
    a = np.array(asleep, dtype=np.int32)
    dd.tree_asleep.assign(a)
    dd.tree_awake.assign((a < 0).astype(np.int32))
    with ktrace.Tracer(wanted, per_kernel=4) as t:
      sleep.wake_collision(mm, dd)
    cases += t.cases
  m = mujoco.MjModel.from_xml_string(TENDON_SLEEP_XML)
  d = mujoco.MjData(m)
  d.qpos[:] = [0.3, 0.1, -0.2]  # both tendon limits violated
  mujoco.mj_forward(m, d)
  mm = mjw.put_model(m)
  for asleep in ([[-4, 1, 2], [0, -6, 2]], [[0, 1, -3], [-2, 1, 2]]):
    dd = mjw.put_data(m, d, nworld=2, nconmax=8, njmax=32)
    mjw.forward(mm, dd)
    a = np.array(asleep, dtype=np.int32)
    dd.tree_asleep.assign(a)
    dd.tree_awake.assign((a < 0).astype(np.int32))
    with ktrace.Tracer(wanted, per_kernel=4) as t:
      sleep.wake_tendon(mm, dd)
    cases += t.cases
  return cases


XML = """<mujoco><option timestep="0.004"/><worldbody><geom type="plane" size="5 5 .1"/>
<body pos="0 0 0.11"><freejoint/><geom type="box" size=".1 .1 .1"/></body>
<body pos="0.3 0 0.07"><freejoint/><geom type="sphere" size=".07"/></body>
<body pos="0 0.5 0.5"><joint name="hj" type="hinge" axis="0 1 0" damping="0.1" limited="true" range="-0.1 0.1" frictionloss="0.02"/>
  <geom type="capsule" fromto="0 0 0 .3 0 0" size=".03"/><site name="s0" pos=".3 0 0"/>
  <body pos=".3 0 0"><joint type="ball" damping="0.05"/><geom type="sphere" size=".05"/>
    <body pos=".1 0 0"><joint name="sl" type="slide" axis="1 0 0" stiffness="5"/><geom type="sphere" size=".03"/></body></body></body>
</worldbody>
<tendon><fixed name="t0"><joint joint="hj" coef="1"/><joint joint="sl" coef="-0.5"/></fixed></tendon>
<actuator><motor joint="hj"/><position joint="sl" kp="3"/></actuator>
<sensor><jointpos joint="hj"/><framepos objtype="site" objname="s0"/></sensor></mujoco>"""


def permuted_runs(res, quick):
  import mujoco

  import gens
  import ktrace
  import kvalid
  import mujoco_warp as mjw

  wanted = {}
  with vlib.Lock():
    for mn in MODS:
      tr = gens.GENS["T_" + mn]()
      vlib.coq_make([f"Gen/T_{mn}.vo"])
      for n, fi in tr.kernels.items():
        fi.genmod = "Gen.T_" + mn
        fi.has_alloc = "KAtomRet" in fi.body
        wanted[fi.pyqual] = fi
  res.extra["translated_kernels_available"] = len(wanted)
  rng = np.random.default_rng(vlib.seed() + 11)
  m = mujoco.MjModel.from_xml_string(XML)
  fails, nk = [], set()
  for variant in range(1 if quick else 3):
    if variant == 1:
      m.opt.jacobian = mujoco.mjtJacobian.mjJAC_SPARSE
    if variant == 2:
      m.opt.cone = mujoco.mjtCone.mjCONE_ELLIPTIC
    d = mujoco.MjData(m)
    mujoco.mj_forward(m, d)
    d.qvel[:] = rng.normal(0, 1, m.nv)
    d.ctrl[:] = rng.normal(0, 0.5, m.nu)
    mm = mjw.put_model(m)
    dd = mjw.put_data(m, d, nworld=2, nconmax=16, njmax=32)
    mjw.step(mm, dd)
    with ktrace.Tracer(wanted, per_kernel=1) as t:
      mjw.step(mm, dd)
    by = {}
    for c in t.cases:
      fi = c["fi"]
      if fi.has_alloc:
        continue  # listing order changes with the schedule: covered by C11_alloc_sched
      dims = c["dim"] if isinstance(c["dim"], (tuple, list)) else (c["dim"],)
      if int(np.prod([int(x) for x in dims])) < 2:
        continue
      for order in ("asc", "rev", f"perm:{int(rng.integers(1 << 30))}"):
        c2 = dict(c)
        c2["order"] = order
        by.setdefault(fi.genmod, []).append(c2)
    for gm, cs in by.items():
      verdicts = kvalid.run_cases(res, f"C11_{variant}_{gm.split('.')[-1]}", gm, cs, tol=5e-4)
      for c, v in zip(cs, verdicts):
        name = c["qual"].split(".")[-1]
        if v == 0:
          nk.add(name)
          res.nontrivial((variant, name, c["order"]))
        if v == 2:
          fails.append({"kernel": c["qual"], "order": c["order"], "dim": list(c["dim"]) if isinstance(c["dim"], (tuple, list)) else c["dim"], "variant": variant})
    res.extra.setdefault("skipped_launches", {}).update({k.split(".")[-1]: v for k, v in t.skipped.items()})
  # wake kernels (sleeping enabled): several tasks of one launch wake the same tree with different values
  scs = []
  for c in sleep_cases(wanted):
    for order in ("asc", "rev", f"perm:{int(rng.integers(1 << 30))}", f"perm:{int(rng.integers(1 << 30))}"):
      c2 = dict(c)
      c2["order"] = order
      scs.append(c2)
  if scs:
    verdicts = kvalid.run_cases(res, "C11_sleep", "Gen.T_sleep", scs, tol=5e-4)
    for c, v in zip(scs, verdicts):
      name = c["qual"].split(".")[-1]
      if v == 0:
        nk.add(name)
        res.nontrivial(("sleep", name, c["order"], len(nk)))
      if v == 2:
        fails.append({"kernel": c["qual"], "order": c["order"], "dim": c["dim"], "variant": "sleep", "tree_asleep_before": np.asarray(c["args"].get("tree_asleep_out")).tolist()})
  res.extra["kernels_permuted_ok"] = sorted(nk)
  if fails:
    res.sample({"kind": "permuted launch disagreement", "first": fails[0]})
  else:
    res.sample({"kind": "permuted launch", "kernels": sorted(nk)[:8], "orders": ["asc", "rev", "random"]})
  return fails


def run(res):
  quick = res.tier == "quick"
  res.rule = "each traced real launch (>= 2 tasks, no allocating atomic) of a machine-translated kernel during mjw.step is re-run inside Coq in ascending, reverse and one random task order and compared with the real result (float tolerance 5e-4); distinct = (kernel, order) pairs that agree"
  ok, trs, failing = propkit.prove(res, "Props/C11.v", gen_names=["Skel_alloc", "Skel_access", "math", "T_sleep"])
  fails = permuted_runs(res, quick)
  asc_bad = [f for f in fails if f["order"] == "asc"]
  ord_bad = [f for f in fails if f["order"] != "asc" and not any(a["kernel"] == f["kernel"] for a in asc_bad)]
  res.obligation("translated kernels agree with the traced real launches (ascending order)", not asc_bad, f"{len(asc_bad)} disagreements: {[f['kernel'] for f in asc_bad][:5]}")
  res.obligation("translated kernels give the same buffers under reverse / random task orders", not ord_bad, f"{len(ord_bad)}: {[(f['kernel'], f['order']) for f in ord_bad][:5]}")
  for f in ord_bad[:3]:
    res.violation(f"C11:schedule-dependent:{f['kernel'].split('.')[-1]}", f"kernel {f['kernel']} gives a different result when its tasks run in order {f['order']} (translated kernel re-executed on the traced real launch)", f)
  if asc_bad and not ord_bad:
    res.violation("C11:translator-mismatch", "translated kernel disagrees with the traced real launch (model no longer tied to code)", asc_bad[:3], found_input=False)
  if not ok and not fails:
    propkit.broken_proof_violation(res, "C11 schedule-independence theorems", failing)
  res.assumptions += ["schedules are permutations of whole tasks", "allocating kernels are covered by C11_alloc_sched, not by the permutation runs", "known finding C29:wake:order-dependent-countdown is reported under C29"]


def replay(res, path):
  print("re-run ./check C11 (the replay file names the kernel and task order)")
  return 0
