"""C04 Collision detection agrees with MuJoCo C: per-pair parameter logic + contact writer (proof, T, C)
and the whole-pipeline differential oracle against mujoco.mj_collision.

Proof (Props/C04.v, over R): the Gallina terms regenerated from collision_core.py on every run
(contact_margin_gap, contact_material_params, contact_params, write_contact_decision = pure prefix of
write_contact) satisfy MuJoCo's mj_contactParam rule (explicit pair verbatim; priority; solmix weight with
the mjMINVAL corner cases; max friction; max condim; solref mix / direct-min; friction floor), the writer
stores exactly one contact iff not skipped and there is room, includemargin = margin, return value 1 iff
stored and active.  The mixing rule holds for every input since /repo commit c20ef50; the formerly refuted case
(different priorities with a direct-format solref) is a regression theorem whose witness is replayed here on the
real kernel and on MuJoCo.

T: the translated functions are run (binary64, vm_compute) against the compiled Warp functions called from
a private wrapper kernel on batched arrays (`worldid % shape[0]` exercised).
C: the hand model of write_contact (counter, guard, stores) against the real function, sequential launch.
Oracle (a test, never a theorem): mjw.kinematics+collision vs mujoco.mj_fwdPosition on random scenes that
contain every geom type pair MJWarp supports, nworld=2 with different poses."""


import json
from collections import defaultdict

import numpy as np

import propkit
import vlib

MANIFEST = {
  "text": "proof: per-pair contact parameter logic (explicit pair verbatim, priority, solmix weight incl. mjMINVAL corner cases, max friction/condim, solref mix vs direct min, friction floor, margin/gap sums) and the write_contact decision/stores (stored iff not skipped and room, includemargin = margin, return 1 iff stored and active) over the Gallina terms regenerated from collision_core.py each run; the mixing rule holds for every input (the formerly refuted case, different priorities + direct-format solref, is kept as a regression witness replayed on the real kernel and on MuJoCo); pair table/broadphase (C19/C18), allocation (C16), contact geometry, GJK/EPA and multi-contact clipping are NOT proved here: the whole pipeline is only tested against mujoco.mj_collision (random scenes with all 27 supported type pairs, 2 worlds, explicit pairs, excludes, both cones; fixed witnesses of the recorded findings and exact-boundary scenes)",
  "note": "trusted: Coq kernel; translator bin/translate.py + the local extensions of bin/gens_contact.py (array shapes as parameters, int vectors, element-wise max/min, source-prefix cut of write_contact), validated each run against the compiled Warp functions; hand model of write_contact's counter/guard/stores (checked against the regenerated store table and by correspondence); reference rule mj_contact_param written from MuJoCo's documentation and checked against the mujoco 3.13 binary by the oracle; real-number axioms of Coq's Reals",
  "technique": "Rocq proof over functions machine-translated from the source (T) + hand model with correspondence (C) + differential oracle against MuJoCo C",
  "engine": "coq",
}

PROPS = "Props/C04.v"
FUNCS = ["contact_margin_gap", "contact_material_params", "contact_params", "write_contact"]

K_SOLREF = "C04:contact_material_params:priority-direct-solref"
K_PLANEBOX = "C04:plane_box:upper-corners-and-more-than-4-contacts"
K_CAPCAP = "C04:capsule_capsule:in-gap-contact-dropped"
K_PLANEMESH = "C04:plane_convex:separated-within-margin-no-contact"
K_BROADPAIR = "C04:broadphase:explicit-pair-margin-ignored"
K_CCD = "C04:ccd:margin-inflated-epa-inaccurate"
K_CAPPAR = "C04:capsule_capsule:near-parallel-float32-det"
# open findings; K_SOLREF, K_CAPCAP, K_BROADPAIR, K_PLANEBOX were repaired in /repo (c20ef50, d4407f1, a1b67de, a1c62a5):
# their witnesses stay as regression cases under the same keys
KNOWN_KEYS = (K_PLANEMESH, K_CCD, K_CAPPAR)

# =============================================================================================
# wrapper kernels (private; call the real @wp.func of /repo)
# =============================================================================================
_K = {}


def kernels():
  if _K:
    return _K
  import warp as wp

  import mujoco_warp._src.collision_core as cc
  from mujoco_warp._src.types import vec5

  @wp.kernel(enable_backward=False)
  def k_contact_params(
    geom_condim: wp.array(dtype=int),
    geom_priority: wp.array(dtype=int),
    geom_solmix: wp.array2d(dtype=float),
    geom_solref: wp.array2d(dtype=wp.vec2),
    geom_solimp: wp.array2d(dtype=vec5),
    geom_friction: wp.array2d(dtype=wp.vec3),
    geom_margin: wp.array2d(dtype=float),
    geom_gap: wp.array2d(dtype=float),
    geom_adhesion: wp.array2d(dtype=float),
    pair_dim: wp.array(dtype=int),
    pair_solref: wp.array2d(dtype=wp.vec2),
    pair_solreffriction: wp.array2d(dtype=wp.vec2),
    pair_solimp: wp.array2d(dtype=vec5),
    pair_margin: wp.array2d(dtype=float),
    pair_gap: wp.array2d(dtype=float),
    pair_adhesion: wp.array2d(dtype=float),
    pair_friction: wp.array2d(dtype=vec5),
    collision_pair_in: wp.array(dtype=wp.vec2i),
    collision_pairid_in: wp.array(dtype=wp.vec2i),
    worldid_in: wp.array(dtype=int),
    o_geoms: wp.array(dtype=wp.vec2i),
    o_margin: wp.array(dtype=float),
    o_gap: wp.array(dtype=float),
    o_condim: wp.array(dtype=int),
    o_friction: wp.array(dtype=vec5),
    o_solref: wp.array(dtype=wp.vec2),
    o_solreffriction: wp.array(dtype=wp.vec2),
    o_solimp: wp.array(dtype=vec5),
    o_adhesion: wp.array(dtype=float),
  ):
    i = wp.tid()
    geoms, margin, gap, condim, friction, solref, solreffriction, solimp, adhesion = cc.contact_params(
      geom_condim,
      geom_priority,
      geom_solmix,
      geom_solref,
      geom_solimp,
      geom_friction,
      geom_margin,
      geom_gap,
      geom_adhesion,
      pair_dim,
      pair_solref,
      pair_solreffriction,
      pair_solimp,
      pair_margin,
      pair_gap,
      pair_adhesion,
      pair_friction,
      collision_pair_in,
      collision_pairid_in,
      i,
      worldid_in[i],
    )
    o_geoms[i] = geoms
    o_margin[i] = margin
    o_gap[i] = gap
    o_condim[i] = condim
    o_friction[i] = friction
    o_solref[i] = solref
    o_solreffriction[i] = solreffriction
    o_solimp[i] = solimp
    o_adhesion[i] = adhesion

  @wp.kernel(enable_backward=False)
  def k_write_contact(
    naconmax: int,
    id_in: wp.array(dtype=int),
    dist_in: wp.array(dtype=float),
    pos_in: wp.array(dtype=wp.vec3),
    frame_in: wp.array(dtype=wp.mat33),
    margin_in: wp.array(dtype=float),
    gap_in: wp.array(dtype=float),
    condim_in: wp.array(dtype=int),
    friction_in: wp.array(dtype=vec5),
    solref_in: wp.array(dtype=wp.vec2),
    solreffriction_in: wp.array(dtype=wp.vec2),
    solimp_in: wp.array(dtype=vec5),
    adhesion_in: wp.array(dtype=float),
    geoms_in: wp.array(dtype=wp.vec2i),
    pairid_in: wp.array(dtype=wp.vec2i),
    worldid_in: wp.array(dtype=int),
    contact_dist_out: wp.array(dtype=float),
    contact_pos_out: wp.array(dtype=wp.vec3),
    contact_frame_out: wp.array(dtype=wp.mat33),
    contact_includemargin_out: wp.array(dtype=float),
    contact_friction_out: wp.array(dtype=vec5),
    contact_solref_out: wp.array(dtype=wp.vec2),
    contact_solreffriction_out: wp.array(dtype=wp.vec2),
    contact_solimp_out: wp.array(dtype=vec5),
    contact_dim_out: wp.array(dtype=int),
    contact_geom_out: wp.array(dtype=wp.vec2i),
    contact_efc_address_out: wp.array2d(dtype=int),
    contact_worldid_out: wp.array(dtype=int),
    contact_type_out: wp.array(dtype=int),
    contact_geomcollisionid_out: wp.array(dtype=int),
    contact_adhesion_out: wp.array(dtype=float),
    nacon_out: wp.array(dtype=int),
    ret_out: wp.array(dtype=int),
    before_out: wp.array(dtype=int),
    after_out: wp.array(dtype=int),
  ):
    i = wp.tid()
    before_out[i] = nacon_out[0]
    r = cc.write_contact(
      naconmax,
      id_in[i],
      dist_in[i],
      pos_in[i],
      frame_in[i],
      margin_in[i],
      gap_in[i],
      condim_in[i],
      friction_in[i],
      solref_in[i],
      solreffriction_in[i],
      solimp_in[i],
      adhesion_in[i],
      geoms_in[i],
      pairid_in[i],
      worldid_in[i],
      contact_dist_out,
      contact_pos_out,
      contact_frame_out,
      contact_includemargin_out,
      contact_friction_out,
      contact_solref_out,
      contact_solreffriction_out,
      contact_solimp_out,
      contact_dim_out,
      contact_geom_out,
      contact_efc_address_out,
      contact_worldid_out,
      contact_type_out,
      contact_geomcollisionid_out,
      contact_adhesion_out,
      nacon_out,
    )
    ret_out[i] = r
    after_out[i] = nacon_out[0]

  _K.update(k_contact_params=k_contact_params, k_write_contact=k_write_contact, vec5=vec5)
  return _K


# =============================================================================================
# T-validation of contact_params (and through it contact_margin_gap, contact_material_params)
# =============================================================================================
ARR1 = ["geom_condim", "geom_priority", "pair_dim"]
ARR2 = {  # name -> element length (1 = scalar)
  "geom_solmix": 1, "geom_solref": 2, "geom_solimp": 5, "geom_friction": 3, "geom_margin": 1, "geom_gap": 1,
  "geom_adhesion": 1, "pair_solref": 2, "pair_solreffriction": 2, "pair_solimp": 5, "pair_margin": 1, "pair_gap": 1,
  "pair_adhesion": 1, "pair_friction": 5,
}  # fmt: skip
NG, NP = 6, 3


def _f32(x):
  return np.asarray(x, dtype=np.float32)


def family(rng, nw):
  """Random batched Model arrays; every batched array independently has leading dimension 1 or nw."""
  A = {}
  A["geom_condim"] = rng.choice([1, 3, 4, 6], NG).astype(np.int32)
  A["geom_priority"] = rng.choice([0, 0, 1, 1, 2, -1], NG).astype(np.int32)
  A["pair_dim"] = rng.choice([1, 3, 4, 6], NP).astype(np.int32)

  def lead(name):
    return 1 if rng.random() < 0.4 else nw

  def solref(n):
    pos = np.stack([rng.uniform(0.005, 0.05, n), rng.uniform(0.3, 2, n)], -1)
    neg = np.stack([-rng.uniform(100, 5000, n), -rng.uniform(1, 100, n)], -1)
    sel = rng.random(n)
    out = np.where((sel < 0.6)[:, None], pos, neg)
    out[sel > 0.95, 0] = 0.0  # solref[0] == 0: boundary of the "both positive" test
    return out

  def solimp(n):
    dmin = rng.uniform(0.5, 0.95, n)
    return np.stack([dmin, rng.uniform(dmin, 0.99), rng.uniform(0.0005, 0.01, n), rng.uniform(0.2, 0.8, n), rng.uniform(1, 3, n)], -1)

  for name, k in ARR2.items():
    l = lead(name)
    n = NG if name.startswith("geom_") else NP
    if name == "geom_solmix":
      v = rng.choice([0.0, 1e-16, 1.0, 1.0, 0.3, 2.5, 5e-16], (l, n))
    elif name.endswith("solref") or name.endswith("solreffriction"):
      v = solref(l * n).reshape(l, n, 2)
    elif name.endswith("solimp"):
      v = solimp(l * n).reshape(l, n, 5)
    elif name == "geom_friction":
      v = np.stack([rng.uniform(0, 1.5, (l, n)), rng.uniform(0, 0.01, (l, n)), rng.uniform(0, 0.001, (l, n))], -1)
      v[rng.random((l, n)) < 0.2] = 0.0  # below the mjMINMU floor
    elif name == "pair_friction":
      v = rng.uniform(0, 1.5, (l, n, 5)) * np.array([1, 1, 0.01, 0.001, 0.001])
      v[rng.random((l, n)) < 0.2] = 0.0
    elif name.endswith("adhesion"):
      v = np.where(rng.random((l, n)) < 0.5, 0.0, rng.uniform(0.1, 2, (l, n)))
    else:  # margin, gap
      v = np.where(rng.random((l, n)) < 0.3, 0.0, rng.uniform(0, 0.05, (l, n)))
    A[name] = _f32(v)
  return A


def family_defs(tag, A):
  """Coq definitions of the arrays of one family as total lookup functions."""
  out = []
  for name in ARR1:
    out.append(f"Definition {tag}_{name} (i : Z) : Z := nth (Z.to_nat i) {vlib.zlist(A[name])} 0%Z.")
  for name, k in ARR2.items():
    v = A[name]
    if k == 1:
      rows = "; ".join(vlib.flist(r) for r in v)
      out.append(f"Definition {tag}_{name} (w i : Z) : float := nth (Z.to_nat i) (nth (Z.to_nat w) [{rows}] nil) 0.")
    else:
      rows = "; ".join("[" + "; ".join(vlib.flist(e) for e in r) + "]" for r in v)
      out.append(f"Definition {tag}_{name} (w i : Z) : list float := nth (Z.to_nat i) (nth (Z.to_nat w) [{rows}] nil) nil.")
  return out


def run_contact_params(A, pairs, pairids, worldids):
  """Real contact_params on the family arrays; returns dict of numpy outputs (one row per case)."""
  import warp as wp

  K = kernels()
  vec5 = K["vec5"]
  n = len(pairs)
  dt = {1: wp.float32, 2: wp.vec2, 3: wp.vec3, 5: vec5}
  ins = [wp.array(A[name], dtype=wp.int32) for name in ("geom_condim", "geom_priority")]
  order = ["geom_solmix", "geom_solref", "geom_solimp", "geom_friction", "geom_margin", "geom_gap", "geom_adhesion"]
  ins += [wp.array(A[name], dtype=dt[ARR2[name]], ndim=2) for name in order]
  ins.append(wp.array(A["pair_dim"], dtype=wp.int32))
  order2 = ["pair_solref", "pair_solreffriction", "pair_solimp", "pair_margin", "pair_gap", "pair_adhesion", "pair_friction"]
  ins += [wp.array(A[name], dtype=dt[ARR2[name]], ndim=2) for name in order2]
  ins += [
    wp.array(np.asarray(pairs, dtype=np.int32), dtype=wp.vec2i),
    wp.array(np.asarray(pairids, dtype=np.int32), dtype=wp.vec2i),
    wp.array(np.asarray(worldids, dtype=np.int32), dtype=wp.int32),
  ]
  outs = [
    wp.zeros(n, dtype=wp.vec2i), wp.zeros(n, dtype=float), wp.zeros(n, dtype=float), wp.zeros(n, dtype=int),
    wp.zeros(n, dtype=vec5), wp.zeros(n, dtype=wp.vec2), wp.zeros(n, dtype=wp.vec2), wp.zeros(n, dtype=vec5), wp.zeros(n, dtype=float),
  ]  # fmt: skip
  wp.launch(K["k_contact_params"], dim=n, inputs=ins, outputs=outs, device="cpu")
  wp.synchronize()
  names = ["geoms", "margin", "gap", "condim", "friction", "solref", "solreffriction", "solimp", "adhesion"]
  return {k: o.numpy() for k, o in zip(names, outs)}


# CorrF.tv3 biases every comparison by 2^-17 * (1 + |a| + |b|): an ABSOLUTE 7.6e-6, far above mjMINVAL = 1e-15, so every
# solmix corner case (0, 1e-16 against 1e-15) would be discarded as a "near tie".  All float comparisons of contact_params
# are between unrounded inputs and constants (solmix vs mjMINVAL, solref[0] vs 0, friction vs friction / mjMINMU, s1+s2 vs 0),
# so the same branch-margin rule with a bias of 2^-70 is used here: it still discards genuine ties, not the corner cases.
TVX = """Definition ScLo : Scalar float := mkScalarF 0x1p-70.
Definition ScHi : Scalar float := mkScalarF (-0x1p-70).
Definition tvx (tol : float) (f : Scalar float -> list float) (exp : list float) : nat :=
  let r0 := f ScalarF0 in let rl := f ScLo in let rh := f ScHi in
  if negb (all_finite exp && all_finite r0 && all_finite rl && all_finite rh) then 1%nat
  else if negb (fl_close tol rl rh && fl_close tol r0 rl) then 1%nat
  else if fl_close tol r0 exp then 0%nat else 2%nat.
"""


def tvalidate(res, tr, nfam, ncase):
  import tvalid

  rng = np.random.default_rng(vlib.seed() + 404)
  sig = tr.signatures()["contact_params"]
  defs, lines, meta = [], [], []
  for f in range(nfam):
    nw = 3
    A = family(rng, nw)
    tag = f"F{f}"
    defs += family_defs(tag, A)
    pairs, pairids, wids = [], [], []
    for c in range(ncase):
      g1, g2 = (int(x) for x in rng.choice(NG, 2, replace=False))
      r = rng.random()
      p0 = -1 if r < 0.6 else (-2 if r < 0.7 else int(rng.integers(0, NP)))
      pairs.append((g1, g2))
      pairids.append((p0, int(rng.choice([-1, -1, 0, 1]))))
      wids.append(int(rng.integers(0, 6)))  # > leading dimension: the modulo is exercised
    defs.append(f"Definition {tag}_cp (c : Z) : list Z := nth (Z.to_nat c) [{'; '.join(vlib.zlist(p) for p in pairs)}] nil.")
    defs.append(f"Definition {tag}_cpid (c : Z) : list Z := nth (Z.to_nat c) [{'; '.join(vlib.zlist(p) for p in pairids)}] nil.")
    out = run_contact_params(A, pairs, pairids, wids)
    for c in range(ncase):
      args = []
      for an, at in sig["args"]:
        if an == "collision_pair_in":
          args.append(f"{tag}_cp")
        elif an == "collision_pairid_in":
          args.append(f"{tag}_cpid")
        elif an == "cid":
          args.append(f"({c})%Z")
        elif an == "worldid":
          args.append(f"({wids[c]})%Z")
        else:
          args.append(f"{tag}_{an}")
      for root, k in sig["shape_params"]:  # `root.shape[k]` parameters, in the translator's order
        args.append(f"({A[root].shape[k]})%Z")
      call = "(@contact_params float Sc " + " ".join(args) + ")"
      term = (
        f"(let '(geoms, margin, gap, condim, friction, solref, solreffriction, solimp, adhesion) := {call} in "
        "[f_ofZ (zget geoms 0); f_ofZ (zget geoms 1); margin; gap; f_ofZ condim] ++ friction ++ solref ++ solreffriction ++ solimp ++ [adhesion])"
      )
      exp = (
        [float(out["geoms"][c][0]), float(out["geoms"][c][1]), float(out["margin"][c]), float(out["gap"][c]), float(out["condim"][c])]
        + [float(x) for x in out["friction"][c]]
        + [float(x) for x in out["solref"][c]]
        + [float(x) for x in out["solreffriction"][c]]
        + [float(x) for x in out["solimp"][c]]
        + [float(out["adhesion"][c])]
      )
      lines.append(f"tvx {vlib.fhex(1e-5)} (fun Sc => {term}) {vlib.flist(exp)}")
      g1, g2 = pairs[c]
      cls = (
        "pair" if pairids[c][0] > -1 else ("prio" if A["geom_priority"][g1] != A["geom_priority"][g2] else "mix"),
        bool(A["geom_solref"][wids[c] % A["geom_solref"].shape[0], g1, 0] > 0),
        bool(A["geom_solref"][wids[c] % A["geom_solref"].shape[0], g2, 0] > 0),
      )
      meta.append({"family": f, "case": c, "pair": pairs[c], "pairid": pairids[c], "worldid": wids[c], "class": cls, "impl": exp})
  verdicts = tvalid.run_cases("C04tv", ["Gen.collision_core"], lines, extra_defs=TVX + "\n".join(defs) + "\n")
  bad = []
  stat = [0, 0, 0]
  for m, v in zip(meta, verdicts):
    stat[v] += 1
    if v == 0:
      res.nontrivial(("tv", m["family"], m["case"]))
    if v == 2 and len(bad) < 10:
      bad.append(m)
  res.count(len(meta))
  res.extra.setdefault("t_validation", {})["contact_params"] = {
    "agree": stat[0], "discarded": stat[1], "disagree": stat[2],
    "classes": sorted({str(m["class"]) for m, v in zip(meta, verdicts) if v == 0}),
  }  # fmt: skip
  if meta:
    res.sample({"kind": "T-validation contact_params", **{k: meta[0][k] for k in ("pair", "pairid", "worldid", "impl")}})
  return bad, stat


# =============================================================================================
# correspondence: hand model of write_contact vs the real function
# =============================================================================================
def corr_write_contact(res, n, naconmax):
  import warp as wp

  import tvalid

  K = kernels()
  vec5 = K["vec5"]
  rng = np.random.default_rng(vlib.seed() + 405)
  NEFC = 4
  margin = np.where(rng.random(n) < 0.3, 0.0, rng.uniform(0.005, 0.05, n))
  gap = np.where(rng.random(n) < 0.35, 0.0, rng.uniform(0.004, 0.03, n))
  gap = np.where(rng.random(n) < 0.08, -rng.uniform(0.002, 0.004, n), gap)  # negative gap: active but not detected
  zone = rng.integers(0, 4, n)
  dist = np.empty(n)
  for i in range(n):
    lo, hi = sorted((margin[i], margin[i] + gap[i]))
    if zone[i] == 0:
      dist[i] = lo - rng.uniform(0.002, 0.05)
    elif zone[i] == 1 and hi - lo > 0.0035:
      dist[i] = rng.uniform(lo + 0.0015, hi - 0.0015)
    elif zone[i] == 2:
      dist[i] = hi + rng.uniform(0.002, 0.03)
    else:
      dist[i] = lo - rng.uniform(0.002, 0.02)
  adhesion = np.where(rng.random(n) < 0.55, 0.0, rng.uniform(0.1, 2, n))
  condim = rng.choice([1, 3, 4, 6], n)
  pairid = np.stack([rng.choice([-2, -1, -1, -1, 0, 3], n), rng.choice([-1, -1, -1, 0, 2], n)], -1)
  geoms = np.stack([rng.integers(0, 20, n), rng.integers(0, 20, n)], -1)
  worldid = rng.integers(0, 5, n)
  ids = rng.integers(0, 8, n)
  pos = rng.normal(0, 1, (n, 3))
  frame = rng.normal(0, 1, (n, 3, 3))
  friction = rng.uniform(0, 1, (n, 5))
  solref = rng.normal(0, 1, (n, 2))
  solreffriction = rng.normal(0, 1, (n, 2))
  solimp = rng.uniform(0, 1, (n, 5))
  f = lambda a: np.ascontiguousarray(a, dtype=np.float32)  # noqa: E731
  z = lambda a: np.ascontiguousarray(a, dtype=np.int32)  # noqa: E731
  I = dict(id_=z(ids), dist=f(dist), pos=f(pos), frame=f(frame), margin=f(margin), gap=f(gap), condim=z(condim), friction=f(friction),
           solref=f(solref), solreffriction=f(solreffriction), solimp=f(solimp), adhesion=f(adhesion), geoms=z(geoms), pairid=z(pairid), worldid=z(worldid))  # fmt: skip
  ins = [
    naconmax, wp.array(I["id_"], dtype=int), wp.array(I["dist"], dtype=float), wp.array(I["pos"], dtype=wp.vec3), wp.array(I["frame"], dtype=wp.mat33),
    wp.array(I["margin"], dtype=float), wp.array(I["gap"], dtype=float), wp.array(I["condim"], dtype=int), wp.array(I["friction"], dtype=vec5),
    wp.array(I["solref"], dtype=wp.vec2), wp.array(I["solreffriction"], dtype=wp.vec2), wp.array(I["solimp"], dtype=vec5),
    wp.array(I["adhesion"], dtype=float), wp.array(I["geoms"], dtype=wp.vec2i), wp.array(I["pairid"], dtype=wp.vec2i), wp.array(I["worldid"], dtype=int),
  ]  # fmt: skip
  SENT = 777.0
  cap = naconmax + 3  # arrays longer than naconmax: writes beyond the guard would be visible
  O = {
    "dist": wp.full(cap, SENT, dtype=float), "pos": wp.full(cap, wp.vec3(SENT), dtype=wp.vec3), "frame": wp.zeros(cap, dtype=wp.mat33),
    "includemargin": wp.full(cap, SENT, dtype=float), "friction": wp.zeros(cap, dtype=vec5), "solref": wp.zeros(cap, dtype=wp.vec2),
    "solreffriction": wp.zeros(cap, dtype=wp.vec2), "solimp": wp.zeros(cap, dtype=vec5), "dim": wp.full(cap, -7, dtype=int),
    "geom": wp.zeros(cap, dtype=wp.vec2i), "efc_address": wp.full((cap, NEFC), 55, dtype=int), "worldid": wp.full(cap, -7, dtype=int),
    "type": wp.full(cap, -7, dtype=int), "geomcollisionid": wp.full(cap, -7, dtype=int), "adhesion": wp.full(cap, SENT, dtype=float),
  }  # fmt: skip
  nacon = wp.zeros(1, dtype=int)
  ret, before, after = wp.zeros(n, dtype=int), wp.zeros(n, dtype=int), wp.zeros(n, dtype=int)
  outs = [O[k] for k in ("dist", "pos", "frame", "includemargin", "friction", "solref", "solreffriction", "solimp", "dim", "geom", "efc_address",
                         "worldid", "type", "geomcollisionid", "adhesion")] + [nacon, ret, before, after]  # fmt: skip
  wp.launch(K["k_write_contact"], dim=n, inputs=ins, outputs=outs, device="cpu")
  wp.synchronize()
  R = {k: v.numpy() for k, v in O.items()}
  ret, before, after = ret.numpy(), before.numpy(), after.numpy()
  nfinal = int(nacon.numpy()[0])
  lines, meta = [], []
  for i in range(n):
    args = " ".join([
      f"({naconmax})%Z", f"({NEFC})%Z", f"({int(before[i])})%Z", f"({int(I['id_'][i])})%Z", vlib.fhex(I["dist"][i]), vlib.flist(I["pos"][i]),
      vlib.flist(I["frame"][i].reshape(-1)), vlib.fhex(I["margin"][i]), vlib.fhex(I["gap"][i]), f"({int(I['condim'][i])})%Z",
      vlib.flist(I["friction"][i]), vlib.flist(I["solref"][i]), vlib.flist(I["solreffriction"][i]), vlib.flist(I["solimp"][i]),
      vlib.fhex(I["adhesion"][i]), vlib.zlist(I["geoms"][i]), vlib.zlist(I["pairid"][i]), f"({int(I['worldid'][i])})%Z",
    ])  # fmt: skip
    term = (
      f"(let '(ret, nac, st) := @write_contact_model float Sc {args} in [f_ofZ ret; f_ofZ nac] ++ "
      "match st with None => [f_ofZ (-1)] | Some (cid, c) => [f_ofZ cid] ++ map f_ofZ (contact_ints c) ++ contact_floats c end)"
    )
    exp = [float(ret[i]), float(after[i])]
    stored = after[i] == before[i] + 1 and before[i] < naconmax
    if stored:
      s = int(before[i])
      exp += [float(s)] + [float(x) for x in R["geom"][s]] + [float(R["worldid"][s]), float(R["dim"][s]), float(R["type"][s]), float(R["geomcollisionid"][s])]
      exp += [float(x) for x in R["efc_address"][s]]
      exp += [float(R["dist"][s])] + [float(x) for x in R["pos"][s]] + [float(x) for x in R["frame"][s].reshape(-1)] + [float(R["includemargin"][s])]
      exp += [float(x) for x in R["friction"][s]] + [float(x) for x in R["solref"][s]] + [float(x) for x in R["solreffriction"][s]]
      exp += [float(x) for x in R["solimp"][s]] + [float(R["adhesion"][s])]
    else:
      exp += [-1.0]
    lines.append(f"tv3 {vlib.fhex(1e-6)} (fun Sc => {term}) {vlib.flist(exp)}")
    meta.append({"i": i, "dist": float(I["dist"][i]), "margin": float(I["margin"][i]), "gap": float(I["gap"][i]), "adhesion": float(I["adhesion"][i]),
                 "pairid": [int(x) for x in I["pairid"][i]], "before": int(before[i]), "after": int(after[i]), "ret": int(ret[i]), "stored": bool(stored)})  # fmt: skip
  verdicts = tvalid.run_cases("C04wc", ["Gen.collision_core", "Model.ContactParams"], lines)
  stat = [0, 0, 0]
  bad = []
  classes = set()
  for m, v in zip(meta, verdicts):
    stat[v] += 1
    if v == 0:
      cl = ("skip" if m["after"] == m["before"] else ("stored" if m["stored"] else "overflow"), m["ret"], m["adhesion"] != 0, m["pairid"][0] >= -1, m["pairid"][1] >= 0)
      classes.add(str(cl))
      res.nontrivial(("wc", m["i"]))
    if v == 2 and len(bad) < 10:
      bad.append(m)
  # real code only: nothing was written outside the slots handed out, counter = number of non-skipped calls
  nst = min(nfinal, naconmax)
  untouched = bool(np.all(R["dist"][nst:] == np.float32(SENT)) and np.all(R["dim"][nst:] == -7) and np.all(R["efc_address"][nst:] == 55))
  slots = sorted(int(b) for b, a in zip(before, after) if a == b + 1 and b < naconmax)
  unique = slots == list(range(nst))
  res.count(n)
  res.extra["correspondence_write_contact"] = {"agree": stat[0], "discarded": stat[1], "disagree": stat[2], "naconmax": naconmax,
                                               "nacon_final": nfinal, "classes": sorted(classes)}  # fmt: skip
  res.sample({"kind": "correspondence write_contact", **meta[0]})
  return bad, stat, untouched and unique


# =============================================================================================
# oracle: MJWarp collision pipeline vs mujoco.mj_collision
# =============================================================================================
TYPES = ["sphere", "capsule", "ellipsoid", "cylinder", "box", "mesh"]
ANALYTIC = {
  ("plane", "sphere"), ("plane", "capsule"), ("plane", "ellipsoid"), ("plane", "cylinder"), ("plane", "box"),
  ("sphere", "sphere"), ("sphere", "capsule"), ("sphere", "cylinder"), ("sphere", "box"), ("capsule", "capsule"), ("capsule", "box"),
}  # fmt: skip
POLY = {("box", "box"), ("box", "mesh"), ("mesh", "mesh")}
# pairs whose multi-contact SELECTION is a documented heuristic that differs from MuJoCo's
# (collision_driver_test.py: "different heuristics for generating multiple contacts for plane<>mesh";
#  box/mesh face clipping = DESIGN "not covered: multi-contact clipping"): deepest contact compared only
HEURISTIC_MULTI = {("plane", "mesh"), ("box", "box"), ("box", "mesh"), ("mesh", "mesh")}

MESH_ASSET = (
  '<mesh name="tet" vertex="0 0 0  1 0 0  0 1 0  0 0 1" scale="0.2 0.2 0.2"/>'
  '<mesh name="cube" vertex="-1 -1 -1 1 -1 -1 1 1 -1 -1 1 -1 -1 -1 1 1 -1 1 1 1 1 -1 1 1" scale="0.07 0.09 0.06"/>'
  '<mesh name="octa" vertex="1 0 0 -1 0 0 0 1 0 0 -1 0 0 0 1 0 0 -1" scale="0.1 0.08 0.12"/>'
)


def _fmt(x):
  return " ".join(f"{float(v):.6g}" for v in np.atleast_1d(x))


def _attrs(a):
  return " ".join(f'{k}="{_fmt(v)}"' for k, v in a.items())


def _solref(rng):
  if rng.random() < 0.7:
    return [rng.uniform(0.005, 0.05), rng.uniform(0.3, 2)]
  return [-rng.uniform(100, 5000), -rng.uniform(1, 100)]


def _solimp(rng):
  dmin = rng.uniform(0.5, 0.95)
  return [dmin, rng.uniform(dmin, 0.99), rng.uniform(0.0005, 0.01), rng.uniform(0.2, 0.8), rng.uniform(1, 3)]


def geom_params(rng, gt):
  a = {"priority": int(rng.choice([0, 0, 0, 1, 2, -1]))}
  sm = rng.random()
  a["solmix"] = 1.0 if sm < 0.4 else (0.0 if sm < 0.55 else (1e-16 if sm < 0.65 else float(rng.uniform(0.1, 5))))
  a["solref"] = _solref(rng)
  a["solimp"] = _solimp(rng)
  fr = [rng.uniform(0, 1.5), rng.uniform(0, 0.01), rng.uniform(0, 0.001)]
  if rng.random() < 0.15:
    fr[int(rng.integers(0, 3))] = 0.0
  a["friction"] = fr
  # put_model rejects non-zero margins on box/mesh pairs (NATIVECCD / MULTICCD): keep those geoms at 0
  a["margin"] = 0.0 if (gt in ("box", "mesh") or rng.random() < 0.4) else float(rng.uniform(0, 0.03))
  a["gap"] = 0.0 if rng.random() < 0.5 else float(rng.uniform(0, 0.02))
  a["condim"] = int(rng.choice([1, 3, 3, 4, 6]))
  a["adhesion"] = 0.0 if rng.random() < 0.75 else float(rng.uniform(0.1, 2))
  return a


def scene(rng, cone, multiccd, per_type=3, npair=4, nexcl=3):
  """One member of the model family: a plane + per_type free bodies of every geom type."""
  s = f'<geom name="g0" type="plane" size="2 2 .1" {_attrs(geom_params(rng, "plane"))}/>\n'
  gtypes = ["plane"]
  gi = 1
  for t in TYPES:
    for k in range(per_type):
      if t == "sphere":
        sz = _fmt([rng.uniform(0.05, 0.12)])
      elif t in ("capsule", "cylinder"):
        sz = _fmt([rng.uniform(0.04, 0.09), rng.uniform(0.05, 0.15)])
      else:
        sz = _fmt(rng.uniform(0.04, 0.12, 3))
      extra = f'size="{sz}"' if t != "mesh" else f'mesh="{["tet", "cube", "octa"][k % 3]}"'
      s += f'<body name="b{gi}"><freejoint/><geom name="g{gi}" type="{t}" {extra} {_attrs(geom_params(rng, t))}/></body>\n'
      gtypes.append(t)
      gi += 1
  ng = gi
  pairs, ps = set(), ""
  while len(pairs) < npair:
    i, j = sorted(int(x) for x in rng.choice(ng, 2, replace=False))
    if (i, j) in pairs:
      continue
    pairs.add((i, j))
    both_bm = gtypes[i] in ("box", "mesh") and gtypes[j] in ("box", "mesh")
    a = {"condim": int(rng.choice([1, 3, 4, 6]))}
    a["friction"] = [rng.uniform(0, 1.5), rng.uniform(0, 1.5), rng.uniform(0, 0.01), rng.uniform(0, 0.001), rng.uniform(0, 0.001)]
    if rng.random() < 0.15:
      a["friction"][int(rng.integers(0, 5))] = 0.0
    a["solref"] = _solref(rng)
    if rng.random() < 0.5:
      a["solreffriction"] = [rng.uniform(0.005, 0.05), rng.uniform(0.3, 2)]
    a["solimp"] = _solimp(rng)
    a["margin"] = 0.0 if both_bm or rng.random() < 0.3 else float(rng.uniform(0, 0.04))
    a["gap"] = 0.0 if rng.random() < 0.5 else float(rng.uniform(0, 0.02))
    if rng.random() < 0.3:
      a["adhesion"] = float(rng.uniform(0.1, 2))
    if rng.random() < 0.5:
      i, j = j, i
    ps += f'<pair geom1="g{i}" geom2="g{j}" {_attrs(a)}/>\n'
  ex = set()
  while len(ex) < nexcl:
    i, j = sorted(int(x) for x in rng.choice(np.arange(1, ng), 2, replace=False))
    if gtypes[i] != gtypes[j]:  # never remove a whole type pair from the model (one kernel family per run)
      ex.add((i, j))
  for i, j in sorted(ex):
    ps += f'<exclude body1="b{i}" body2="b{j}"/>\n'
  flag = "" if multiccd else '<flag multiccd="disable"/>'
  xml = (
    f'<mujoco><option cone="{cone}">{flag}</option><asset>{MESH_ASSET}</asset>\n<worldbody>\n{s}</worldbody>\n<contact>\n{ps}</contact></mujoco>'
  )
  return xml, gtypes


def random_qpos(rng, m, spread=0.33, zmax=0.3):
  q = np.zeros(m.nq)
  for j in range(m.njnt):
    a = m.jnt_qposadr[j]
    q[a : a + 3] = [rng.uniform(-spread, spread), rng.uniform(-spread, spread), rng.uniform(0.0, zmax)]
    qu = rng.normal(0, 1, 4)
    q[a + 3 : a + 7] = qu / np.linalg.norm(qu)
  return q


FIELDS = ("dist", "pos", "frame", "includemargin", "friction", "solref", "solreffriction", "solimp", "adhesion")


def mj_contacts(m, d, q):
  import mujoco

  d.qpos[:] = q
  mujoco.mj_fwdPosition(m, d)
  out = []
  for i in range(d.ncon):
    c = d.contact[i]
    out.append({
      "geom": (int(c.geom[0]), int(c.geom[1])), "dist": float(c.dist), "pos": np.array(c.pos), "frame": np.array(c.frame), "dim": int(c.dim),
      "friction": np.array(c.friction), "solref": np.array(c.solref), "solreffriction": np.array(c.solreffriction), "solimp": np.array(c.solimp),
      "includemargin": float(c.includemargin), "adhesion": float(c.adhesion), "exclude": int(c.exclude),
    })  # fmt: skip
  return out


def mjw_contacts(dd, nworld):
  n = min(int(dd.nacon.numpy()[0]), dd.naconmax)
  c = dd.contact
  f = {k: getattr(c, k).numpy()[:n] for k in FIELDS + ("dim", "geom", "worldid", "type")}
  out = [[] for _ in range(nworld)]
  for i in range(n):
    if not (int(f["type"][i]) & 1):  # CONSTRAINT contacts only (sensor-only contacts have no MuJoCo counterpart)
      continue
    out[int(f["worldid"][i])].append({
      "geom": (int(f["geom"][i][0]), int(f["geom"][i][1])), "dist": float(f["dist"][i]), "pos": f["pos"][i].astype(float),
      "frame": f["frame"][i].reshape(-1).astype(float), "dim": int(f["dim"][i]), "friction": f["friction"][i].astype(float),
      "solref": f["solref"][i].astype(float), "solreffriction": f["solreffriction"][i].astype(float), "solimp": f["solimp"][i].astype(float),
      "includemargin": float(f["includemargin"][i]), "adhesion": float(f["adhesion"][i]),
    })  # fmt: skip
  return out, int(dd.nacon.numpy()[0])


def pair_threshold(m, g1, g2):
  """(margin, gap, priority differs, any direct solref, explicit) of a geom pair from the MuJoCo model."""
  for p in range(m.npair):
    if {int(m.pair_geom1[p]), int(m.pair_geom2[p])} == {g1, g2}:
      return float(m.pair_margin[p]), float(m.pair_gap[p]), False, False, True
  return (
    float(m.geom_margin[g1] + m.geom_margin[g2]),
    float(m.geom_gap[g1] + m.geom_gap[g2]),
    bool(m.geom_priority[g1] != m.geom_priority[g2]),
    bool(m.geom_solref[g1][0] <= 0 or m.geom_solref[g2][0] <= 0),
    False,
  )


def tolerances(tp, depth):
  """(dist, pos, normal) tolerances relative to 1 + magnitude; None = not compared.

  analytic pairs (closed-form float32 geometry): 1e-4; normals of capsule pairs 1e-3 (math.closest_segment_point adds a 1e-6
  regulariser that tilts the normal: recorded minor finding F8; measured <= 3.3e-4).
  CCD pairs (GJK/EPA, ccd_tolerance 1e-6, float32 polytope in MJWarp, float64 in MuJoCo), measured on ~10000 contacts:
    dist      agrees to 8e-5 when shallow, outliers are real (see K_CCD) -> 1e-3; 3e-3 down to -5 cm
    normal    GJK stops when the distance bounds are within tol; the direction error is then up to sqrt(2 tol / |d|) ~ 1e-2 for
              d ~ 1 cm (measured up to 1.5e-2 on separated box/mesh pairs) -> 5e-2; not compared below -2 cm where the
              penetration direction is ill-conditioned in both engines (differences up to 0.4 rad)
    pos       a single-point CCD contact on a face-face / edge-face manifold (cylinder caps, box faces) may lie anywhere in the
              overlap region -> 1e-2 (objects are 0.1 - 0.25 m), 2e-2 down to -5 cm
    deeper than 5 cm (half an object): presence only."""
  if tp in ANALYTIC or tp == ("plane", "mesh"):
    return 1e-4, 1e-4, (1e-3 if "capsule" in tp else 1e-4)
  if depth > -0.02:
    return 1e-3, 1e-2, 5e-2
  if depth > -0.05:
    return 3e-3, 2e-2, None
  return None, None, None


def rel_err(x, y):
  x, y = np.atleast_1d(np.asarray(x, float)), np.atleast_1d(np.asarray(y, float))
  return float(np.max(np.abs(x - y)) / (1 + np.max(np.abs(x))))


def compare_world(m, gtypes, C, W, multiccd, stats, fails, d=None):
  A, B = defaultdict(list), defaultdict(list)
  for c in C:
    A[tuple(sorted(c["geom"]))].append(c)
  for c in W:
    B[tuple(sorted(c["geom"]))].append(c)
  ncmp = 0
  for key in sorted(set(A) | set(B)):
    tp = (gtypes[key[0]], gtypes[key[1]])
    a, b = A.get(key, []), B.get(key, [])
    margin, gap, prio, direct, explicit = pair_threshold(m, *key)
    st = stats.setdefault(str(tp), {"pairs": 0, "compared": 0, "discarded_near_threshold": 0, "count_differs_heuristic": 0})
    st["pairs"] += 1
    # never compare at the edge of contact activation / detection
    if any(abs(c["dist"] - (margin + gap)) < 1e-3 or abs(c["dist"] - margin) < 1e-3 for c in a + b):
      st["discarded_near_threshold"] += 1
      continue
    ccd = tp not in ANALYTIC and tp != ("plane", "mesh")
    heuristic = tp in HEURISTIC_MULTI or (ccd and multiccd)
    info = {"pair": key, "types": tp, "margin": margin, "gap": gap, "mj_dist": [c["dist"] for c in a], "mjw_dist": [c["dist"] for c in b]}
    if len(a) != len(b):
      if tp == ("plane", "box") and len(b) > len(a):
        fails.append((K_PLANEBOX, f"plane-box {key}: MuJoCo {len(a)} contacts, MJWarp {len(b)}", info))
        continue
      if tp == ("capsule", "capsule") and len(b) < len(a) and gap > 0 and sum(1 for c in a if c["dist"] > margin) >= len(a) - len(b):
        fails.append((K_CAPCAP, f"capsule-capsule {key}: in-gap contact (margin < dist < margin+gap) listed by MuJoCo, not by MJWarp", info))
        continue
      if tp == ("plane", "mesh") and not b and all(c["dist"] > 0 for c in a):
        fails.append((K_PLANEMESH, f"plane-mesh {key}: separated mesh within margin+gap: MuJoCo {len(a)} contacts, MJWarp none", info))
        continue
      gsum = float(m.geom_margin[key[0]] + m.geom_margin[key[1]] + m.geom_gap[key[0]] + m.geom_gap[key[1]])
      if explicit and not b and margin + gap > gsum and all(c["dist"] > 0 for c in a):
        fails.append((K_BROADPAIR, f"{tp} {key}: explicit pair margin+gap {margin + gap:.4f} > geoms' {gsum:.4f}: MuJoCo {len(a)} contacts (dist {a[0]['dist']:.4f}), MJWarp none", info))
        continue
      if d is not None and tp in POLY and not a and b and all(c["dist"] > 0 for c in b):
        # MuJoCo's box-box / box-mesh collision function sometimes returns nothing for SEPARATED polytopes inside margin+gap
        # (seen: boxes 10.04 mm apart, gap 11.6 mm, also with margin 20 mm: no contact) although mujoco.mj_geomDistance, its own
        # GJK distance, gives 10.04 mm = MJWarp's dist = the brute-force support-function minimum.  Where the reference
        # contradicts its own distance function and MJWarp agrees with the latter, the reference missed the contact.
        import mujoco

        gd = mujoco.mj_geomDistance(m, d, key[0], key[1], 10.0, None)
        if abs(gd - min(c["dist"] for c in b)) < 1e-3 and gd < margin + gap - 1e-3:
          st["reference_missed_separated_polytope"] = st.get("reference_missed_separated_polytope", 0) + 1
          continue
      if heuristic and a and b:
        st["count_differs_heuristic"] += 1
      else:
        cls = "analytic" if tp in ANALYTIC else ("plane-mesh" if tp == ("plane", "mesh") else "ccd")
        fails.append((f"C04:oracle:contact-count:{cls}", f"{tp} {key}: MuJoCo {len(a)} contacts, MJWarp {len(b)}", info))
        continue
    if heuristic and len(a) != len(b) or (heuristic and len(a) > 1):
      # deepest contact only
      a = [min(a, key=lambda c: c["dist"])]
      b = [min(b, key=lambda c: c["dist"])]
      deepest_only = True
    else:
      deepest_only = False
    used = set()
    for ca in a:
      j = min((j for j in range(len(b)) if j not in used), key=lambda j: np.linalg.norm(b[j]["pos"] - ca["pos"]))
      used.add(j)
      cb = b[j]
      ncmp += 1
      st["compared"] += 1
      tol_d, tol_p, tol_n = tolerances(tp, ca["dist"])
      if deepest_only:
        # MuJoCo's multi-contact depths come from face clipping, not from the penetration distance (with MULTICCD they differ
        # from the true depth by centimetres, checked against a brute-force support-function minimisation): presence only there
        tol_d = None if (multiccd and ccd) or tol_d is None else max(tol_d, 3e-3)
        tol_p, tol_n = None, (None if tol_n is None or (multiccd and ccd) else max(tol_n, 5e-2))
      bad = []
      if ca["geom"] != cb["geom"]:
        bad.append(("geom-order", ca["geom"], cb["geom"]))
      if ca["dim"] != cb["dim"]:
        bad.append(("dim", ca["dim"], cb["dim"]))
      if tol_d is not None and rel_err(ca["dist"], cb["dist"]) > tol_d:
        if ccd and margin > 0:
          fails.append((K_CCD, f"{tp} {key}: pair margin {margin:.4f}: dist MuJoCo {ca['dist']:.5f}, MJWarp {cb['dist']:.5f}", info))
          continue
        bad.append(("dist", ca["dist"], cb["dist"]))
      if tol_p is not None and rel_err(ca["pos"], cb["pos"]) > tol_p:
        bad.append(("pos", ca["pos"].tolist(), cb["pos"].tolist()))
      if tol_n is not None and rel_err(ca["frame"][:3], cb["frame"][:3]) > tol_n:
        bad.append(("normal", ca["frame"][:3].tolist(), cb["frame"][:3].tolist()))
      # the activity MuJoCo assigns (exclude 0 / 1 = in gap) must follow from MJWarp's stored dist / includemargin / adhesion
      act_w = cb["dist"] < cb["includemargin"] or cb["adhesion"] != 0.0
      if ca["exclude"] in (0, 1) and (ca["exclude"] == 0) != act_w:
        bad.append(("active", ca["exclude"], act_w))
      solref_bad = None
      for fld in ("includemargin", "friction", "solref", "solreffriction", "solimp", "adhesion"):
        if rel_err(ca[fld], cb[fld]) > 1e-4:
          if fld == "solref":
            solref_bad = (np.asarray(ca[fld]).tolist(), np.asarray(cb[fld]).tolist())
          else:
            bad.append((fld, np.asarray(ca[fld]).tolist(), np.asarray(cb[fld]).tolist()))
      if bad and d is not None and tp in POLY and ca["dist"] > 0 and cb["dist"] > 0 and any(x[0] in ("dist", "pos", "normal") for x in bad):
        # separated box/mesh pairs: MuJoCo's collision function (SAT-style box-box) reports an approximate distance / normal
        # (seen: 12.29 mm, normal off by 0.3 rad, against 13.21 mm from mujoco.mj_geomDistance = MJWarp = brute-force support-
        # function minimum).  If MJWarp agrees with the reference's own distance function, the geometry fields are accepted.
        import mujoco

        ft = np.zeros(6)
        gd = mujoco.mj_geomDistance(m, d, ca["geom"][0], ca["geom"][1], 10.0, ft)
        nrm = ft[3:] - ft[:3]
        nrm = nrm / max(np.linalg.norm(nrm), 1e-12)
        if abs(gd - cb["dist"]) < 1e-3 and np.linalg.norm(nrm - cb["frame"][:3]) < 5e-2:
          bad = [x for x in bad if x[0] not in ("dist", "pos", "normal")]
          st["reference_inexact_separated_polytope"] = st.get("reference_inexact_separated_polytope", 0) + 1
      if solref_bad is not None:
        g1, g2 = ca["geom"]
        mn = np.minimum(m.geom_solref[g1], m.geom_solref[g2])
        if prio and direct and not explicit and rel_err(mn, solref_bad[1]) <= 1e-4:
          fails.append((K_SOLREF, f"{tp} {key}: priorities differ and a solref is in direct format: MuJoCo solref {solref_bad[0]}, MJWarp element-wise min {solref_bad[1]}", info))
        else:
          bad.append(("solref",) + solref_bad)
      if bad:
        cls = "analytic" if tp in ANALYTIC else ("plane-mesh" if tp == ("plane", "mesh") else "ccd")
        fails.append((f"C04:oracle:{bad[0][0]}:{cls}", f"{tp} {key}: " + "; ".join(f"{n}: MuJoCo {x} MJWarp {y}" for n, x, y in bad[:4]), info))
  return ncmp


def full_signature(mm, gtypes):
  """All 27 type pairs of the family must be present: the narrowphase kernels are specialised on this set."""
  from mujoco_warp._src import types

  n = len(types.GeomType)
  present = {int(getattr(types.GeomType, t.upper())) for t in set(gtypes)}
  for i in present:
    for j in present:
      if i <= j and not (i == 0 and j == 0):
        idx = (i * (2 * n - i - 1)) // 2 + j
        if mm.geom_pair_type_count[idx] == 0:
          return False
  return True


def run_scene(xml, gtypes, qs, multiccd, stats):
  import warnings

  import mujoco
  import warp as wp

  import mujoco_warp as mjw

  m = mujoco.MjModel.from_xml_string(xml)
  d = mujoco.MjData(m)
  with warnings.catch_warnings():
    warnings.simplefilter("ignore")
    mm = mjw.put_model(m)
  if not full_signature(mm, gtypes):
    return None
  nworld = len(qs)
  d.qpos[:] = qs[0]
  mujoco.mj_fwdPosition(m, d)
  dd = mjw.put_data(m, d, nworld=nworld, nconmax=400)
  wp.copy(dd.qpos, wp.array(np.stack(qs).astype(np.float32), dtype=float))
  mjw.kinematics(mm, dd)
  mjw.collision(mm, dd)
  W, nacon = mjw_contacts(dd, nworld)
  fails, ncmp = [], 0
  if nacon > dd.naconmax:
    return [("C04:oracle:harness-overflow", "contact buffer of the harness too small", {"nacon": nacon})], 0
  for w in range(nworld):
    C = mj_contacts(m, d, qs[w])
    fw = []
    ncmp += compare_world(m, gtypes, C, W[w], multiccd, stats, fw, d)
    for k, what, info in fw:
      if k.startswith("C04:oracle:") and k.endswith(":ccd"):
        # GJK/EPA answers are discontinuous where the closest feature pair changes (edge-edge, face-face, flat caps): report a
        # disagreement only where the reference is locally constant and the disagreement holds on a neighbourhood
        key = tuple(info["pair"])
        verdict = adjudicate(m, mm, d, gtypes, qs[w], key[1], key, [c for c in C if tuple(sorted(c["geom"])) == key])
        if verdict != "keep":
          stats.setdefault("discarded_ccd_" + verdict, 0)
          stats["discarded_ccd_" + verdict] += 1
          continue
      fails.append((k, f"world {w}: " + what, {"xml": xml, "qpos": [q.tolist() for q in qs], "world": w, "multiccd": multiccd, **info}))
  return fails, ncmp


def oracle(res, nscene):
  rng = np.random.default_rng(vlib.seed() + 406)
  stats = {}
  fails = []
  done = tries = 0
  while done < nscene and tries < 3 * nscene:
    tries += 1
    multiccd = done % 4 == 3
    xml, gtypes = scene(rng, cone=["pyramidal", "elliptic"][done % 2], multiccd=multiccd)
    import mujoco

    m0 = mujoco.MjModel.from_xml_string(xml)
    qs = [random_qpos(rng, m0) for _ in range(2)]
    r = run_scene(xml, gtypes, qs, multiccd, stats)
    if r is None:
      continue
    fs, ncmp = r
    fails += fs
    done += 1
    res.count(ncmp)
    res.nontrivial(("oracle", xml, str(qs[0][:7])))
    if done == 1:
      res.sample({"kind": "oracle", "xml": xml[:600], "contacts_compared": ncmp, "nworld": 2})
  res.extra["oracle_pair_stats"] = stats
  return fails, done


# =============================================================================================
# structured pose families (directed oracle) for every primitive pair
# =============================================================================================
# Random poses almost never produce exactly parallel / perpendicular axes, a capsule lying along a box edge, a long shape
# overhanging a short one, ...: the branches of the primitive functions that handle those are reached only by construction.
# One fixed member of the model family (same 27 type pairs -> same kernels) with dyadic, pairwise different sizes; the pair
# under test is posed, every other body is parked far away; poses are batched as worlds.
S_SIZES = {
  "sphere": ["0.125", "0.0625", "0.1875"],
  "capsule": ["0.25 0.75", "0.1875 0.03125", "0.0625 0.25"],  # long, pill, thin
  "ellipsoid": ["0.25 0.125 0.0625", "0.1 0.2 0.15", "0.125 0.125 0.25"],
  "cylinder": ["0.125 0.5", "0.25 0.0625", "0.1 0.15"],  # rod, disc, stub
  "box": ["0.3 0.2 0.1", "0.1 0.25 0.4", "0.125 0.125 0.125"],  # two non-cubic boxes with 3 distinct half-sizes, one cube
}
S_MARGIN = {"sphere": [0.03125, 0, 0.015625], "capsule": [0.03125, 0, 0], "ellipsoid": [0, 0.03125, 0], "cylinder": [0.03125, 0, 0]}
S_GAP = {"sphere": [0, 0.015625, 0], "capsule": [0, 0, 0.015625]}
S_PAIRS = sorted(ANALYTIC | {("plane", "mesh")})


def structured_scene():
  s = '<geom name="g0" type="plane" size="5 5 .1"/>\n'
  gtypes = ["plane"]
  gi = 1
  for t in TYPES:
    for k in range(3):
      extra = f'size="{S_SIZES[t][k]}"' if t != "mesh" else f'mesh="{["tet", "cube", "octa"][k]}"'
      mg = S_MARGIN.get(t, [0, 0, 0])[k]
      gp = S_GAP.get(t, [0, 0, 0])[k]
      s += f'<body name="b{gi}" pos="{10 * gi} 0 30"><freejoint/><geom name="g{gi}" type="{t}" {extra} margin="{mg}" gap="{gp}"/></body>\n'
      gtypes.append(t)
      gi += 1
  xml = f'<mujoco><option><flag multiccd="disable"/></option><asset>{MESH_ASSET}</asset>\n<worldbody>\n{s}</worldbody></mujoco>'
  return xml, gtypes


def _qmul(a, b):
  w1, x1, y1, z1 = a
  w2, x2, y2, z2 = b
  return np.array([w1 * w2 - x1 * x2 - y1 * y2 - z1 * z2, w1 * x2 + x1 * w2 + y1 * z2 - z1 * y2,
                   w1 * y2 - x1 * z2 + y1 * w2 + z1 * x2, w1 * z2 + x1 * y2 - y1 * x2 + z1 * w2])  # fmt: skip


def _qaxis(axis, ang):
  axis = np.asarray(axis, float)
  axis = axis / np.linalg.norm(axis)
  return np.concatenate([[np.cos(ang / 2)], np.sin(ang / 2) * axis])


def _qmat(q):
  w, x, y, z = q / np.linalg.norm(q)
  return np.array([[1 - 2 * (y * y + z * z), 2 * (x * y - w * z), 2 * (x * z + w * y)],
                   [2 * (x * y + w * z), 1 - 2 * (x * x + z * z), 2 * (y * z - w * x)],
                   [2 * (x * z - w * y), 2 * (y * z + w * x), 1 - 2 * (x * x + y * y)]])  # fmt: skip


_H = np.sqrt(0.5)
S_RELS = [np.array([1.0, 0, 0, 0]), np.array([_H, _H, 0, 0]), np.array([_H, 0, _H, 0]), np.array([_H, 0, 0, _H])]  # I, Rx90, Ry90, Rz90
S_TILTS = [None, ([1, 0, 0], 0.03), ([0, 1, 0], 0.03), ([1, 1, 1], 0.01)]
S_DIRS = [np.array(v, float) for v in np.ndindex(3, 3, 3) if v != (1, 1, 1)]
S_DIRS = [v - 1 for v in S_DIRS]  # the 26 face / edge / corner directions of a box
S_F = [0.35, 0.7, 0.9, 1.0, 1.08]
S_T = [0.0, 0.5, -0.5, 0.9, -0.9, 1.2, -1.2]


def structured_poses(m, ga, gb, rng, nrandom):
  """Relative poses (posA, quatA, posB, quatB) of geom gb against geom ga (ga = 0: the plane), in three strata:
  slide  : exactly parallel axes (identity base orientation), B beside A, sliding along A's axis past both ends;
  edge   : B's axis laid along each of the 12 edges of A's box (slightly tilted), over the middle and towards the corners;
  general: random draws from {I, Rx90, Ry90, Rz90} x {exact, tilted} x 26 face/edge/corner placements x 5 depths x slides
           x {identity, random} base orientation."""
  hB = np.array(m.geom_aabb[gb][3:], float)
  out = []

  def rel_quat(r, t):
    q = S_RELS[r].copy()
    if S_TILTS[t] is not None:
      q = _qmul(q, _qaxis(*S_TILTS[t]))
    return q

  if ga == 0:
    for r in range(4):
      for t in range(4):
        for f in S_F + [1.3, -0.2]:
          for extra in (None, 1):
            q = rel_quat(r, t)
            if extra is not None:
              q = _qmul(_qaxis(rng.normal(size=3), rng.uniform(0, np.pi)), q)
            hb = float(np.abs(_qmat(q)[2]) @ hB)  # half-height of B's rotated bounding box
            out.append((None, None, np.array([rng.uniform(-1, 1), rng.uniform(-1, 1), hb * f]), q))
    return out
  cA, hA = np.array(m.geom_aabb[ga][:3], float), np.array(m.geom_aabb[ga][3:], float)

  def place(qA, r, t, sdir, f, slide):
    q = rel_quat(r, t)
    n = sdir / np.linalg.norm(sdir)
    hb = float(np.abs(_qmat(q).T @ n) @ hB)  # support of B's rotated bounding box along -n
    off = cA + hA * sdir + n * hb * f
    if slide:
      ax = int(np.argmax(hA)) if sdir[int(np.argmax(hA))] == 0 else None
      if ax is not None:
        e = np.zeros(3)
        e[ax] = 1
        off = off + e * slide * hA[ax]
    RA = _qmat(qA)
    return (np.array([0, 0, 3.0]), qA, np.array([0, 0, 3.0]) + RA @ off, _qmul(qA, q))

  ident = np.array([1.0, 0, 0, 0])
  long_ax = int(np.argmax(hA))
  # slide stratum: B's long axis parallel to A's long axis (exactly), lateral placements
  rel_par = {2: 0, 1: 1, 0: 2}  # A's long axis z/y/x  <-  B's z axis under I / Rx90 / Ry90
  for sdir in S_DIRS:
    if sdir[long_ax] != 0 or np.count_nonzero(sdir) != 1:
      continue
    for f in S_F:
      for sl in S_T:
        out.append(place(ident, rel_par[long_ax], 0, sdir, f, sl))
  # edge stratum
  for sdir in S_DIRS:
    if np.count_nonzero(sdir) != 2:
      continue
    ax = int(np.argmin(np.abs(sdir)))  # the edge runs along this axis of A
    for f in (0.5, 0.9):
      for sl in (0.0, 0.6, -0.6):
        q = rel_quat(rel_par[ax], 1 + (len(out) % 3))
        n = sdir / np.linalg.norm(sdir)
        hb = float(np.abs(_qmat(q).T @ n) @ hB)
        e = np.zeros(3)
        e[ax] = 1
        off = cA + hA * sdir + n * hb * f + e * sl * hA[ax]
        out.append((np.array([0, 0, 3.0]), ident, np.array([0, 0, 3.0]) + off, q))
  # general stratum
  for _ in range(nrandom):
    qA = ident if rng.random() < 0.5 else _qaxis(rng.normal(size=3), rng.uniform(0, np.pi))
    out.append(place(qA, int(rng.integers(4)), int(rng.integers(4)), S_DIRS[int(rng.integers(26))], S_F[int(rng.integers(5))],
                     S_T[int(rng.integers(7))] if rng.random() < 0.5 else 0.0))  # fmt: skip
  return out


def capsule_det32(xmat, m, g1, g2):
  """The float32 determinant capsule_capsule tests against MJ_MINVAL (|det| < 1e-15 -> parallel branch), recomputed from
  MJWarp's own geom_xmat, and sin^2 of the angle between the two axes."""
  f = np.float32
  a1 = xmat[g1][:, 2].astype(f) * f(m.geom_size[g1][1])
  a2 = xmat[g2][:, 2].astype(f) * f(m.geom_size[g2][1])
  dot = lambda x, y: f(f(f(x[0] * y[0]) + f(x[1] * y[1])) + f(x[2] * y[2]))  # noqa: E731
  ma, mb, mc = dot(a1, a1), -dot(a1, a2), dot(a2, a2)
  det = f(f(ma * mc) - f(mb * mb))
  c = np.cross(xmat[g1][:, 2].astype(float), xmat[g2][:, 2].astype(float))
  return float(det), float(c @ c)


def adjudicate(m, mm, d, gtypes, q, gb, key, ref):
  """A structured pose sits ON discontinuities of the contact functions (capsule exactly parallel to a box face, sphere centre
  on a capsule axis, two box corners equally near): there the two engines may break an exact tie differently, which is inside
  the property's float32 tolerance clause.  Geom gb's body is moved / turned by 1e-5 (6 times) and 1e-4 (6 times):
    "ref-unstable"  mujoco.mj_collision's own answer for the pair changes (count, dist 1e-3, pos 2e-3, normal 2e-2);
    "isolated-tie"  the reference is constant and MJWarp agrees with it at >= 5 of the 12 neighbours: the disagreement does not hold
                    on a neighbourhood of the pose (a genuine defect of a branch persists at all of them);
    "keep"          the disagreement persists in the neighbourhood: reported."""
  import mujoco
  import warp as wp

  import mujoco_warp as mjw

  rng = np.random.default_rng(int(abs(float(np.sum(q))) * 1e6) % (2**32))
  b = 7 * (gb - 1)
  qs = []
  for i in range(12):
    eps = 1e-5 if i < 6 else 1e-4
    q2 = q.copy()
    q2[b : b + 3] += eps * rng.normal(size=3)
    q2[b + 3 : b + 7] = _qmul(_qaxis(rng.normal(size=3), eps), q2[b + 3 : b + 7])
    qs.append(q2.astype(np.float32).astype(np.float64))
  refs = []
  for q2 in qs:
    C = [c for c in mj_contacts(m, d, q2) if tuple(sorted(c["geom"])) == key]
    if len(C) != len(ref):
      return "ref-unstable"
    used = set()
    for ca in ref:
      j = min((j for j in range(len(C)) if j not in used), key=lambda j: np.linalg.norm(C[j]["pos"] - ca["pos"]))
      used.add(j)
      if abs(C[j]["dist"] - ca["dist"]) > 1e-3 or np.linalg.norm(C[j]["pos"] - ca["pos"]) > 2e-3 or np.linalg.norm(C[j]["frame"][:3] - ca["frame"][:3]) > 2e-2:
        return "ref-unstable"
    refs.append(C)
  d.qpos[:] = qs[0]
  mujoco.mj_fwdPosition(m, d)
  dd = mjw.put_data(m, d, nworld=12, nconmax=max(24, 2 * d.ncon + 64))
  wp.copy(dd.qpos, wp.array(np.stack(qs).astype(np.float32), dtype=float))
  mjw.kinematics(mm, dd)
  mjw.collision(mm, dd)
  W, _ = mjw_contacts(dd, 12)
  agree = 0
  for w in range(12):
    fw = []
    compare_world(m, gtypes, refs[w], [c for c in W[w] if tuple(sorted(c["geom"])) == key], False, {}, fw)
    agree += not fw
  return "isolated-tie" if agree >= 5 else "keep"


def structured_oracle(res, nrandom):
  import warnings

  import mujoco
  import warp as wp

  import mujoco_warp as mjw

  rng = np.random.default_rng(vlib.seed() + 407)
  xml, gtypes = structured_scene()
  m = mujoco.MjModel.from_xml_string(xml)
  d = mujoco.MjData(m)
  with warnings.catch_warnings():
    warnings.simplefilter("ignore")
    mm = mjw.put_model(m)
  if not full_signature(mm, gtypes):
    return [("C04:oracle:harness-family", "structured scene is outside the model family", {})], 0
  mujoco.mj_fwdPosition(m, d)
  q0 = d.qpos.copy()
  by_type = defaultdict(list)
  for g, t in enumerate(gtypes):
    by_type[t].append(g)
  stats, fails, nposes, ties = {}, [], 0, {}
  for ta, tb in S_PAIRS:
    if ta == "plane":
      combos = [(0, g) for g in by_type[tb]]
    elif ta == tb:
      ga = by_type[ta]
      combos = [(ga[0], ga[1]), (ga[1], ga[2]), (ga[0], ga[2])]
    else:
      combos = [(by_type[ta][i], by_type[tb][j]) for i, j in ((0, 0), (1, 2), (2, 1))]
    for ga, gb in combos:
      poses = structured_poses(m, ga, gb, rng, nrandom)
      qs = []
      for pA, qA, pB, qB in poses:
        q = q0.copy()
        if ga:
          a = 7 * (ga - 1)
          q[a : a + 3], q[a + 3 : a + 7] = pA, qA
        b = 7 * (gb - 1)
        q[b : b + 3], q[b + 3 : b + 7] = pB, qB
        qs.append(q.astype(np.float32).astype(np.float64))  # both engines get the same (float32-representable) state
      nworld = len(qs)
      d.qpos[:] = qs[0]
      mujoco.mj_fwdPosition(m, d)
      dd = mjw.put_data(m, d, nworld=nworld, nconmax=24)
      wp.copy(dd.qpos, wp.array(np.stack(qs).astype(np.float32), dtype=float))
      mjw.kinematics(mm, dd)
      mjw.collision(mm, dd)
      W, nacon = mjw_contacts(dd, nworld)
      if nacon > dd.naconmax:
        fails.append(("C04:oracle:harness-overflow", "contact buffer of the harness too small", {"nacon": nacon}))
        continue
      ncmp = 0
      xmat_all = None
      for w in range(nworld):
        C = mj_contacts(m, d, qs[w])
        fw = []
        ncmp += compare_world(m, gtypes, C, W[w], False, stats, fw)
        for k, what, info in fw:
          if k.startswith("C04:oracle:") or (k == K_CAPCAP and info["types"] == ("capsule", "capsule")):
            key = tuple(info["pair"])
            exact_parallel = False
            if info["types"] == ("capsule", "capsule"):
              if xmat_all is None:
                xmat_all = dd.geom_xmat.numpy()
              det, sin2 = capsule_det32(xmat_all[w], m, *key)
              exact_parallel = det == 0.0 and sin2 == 0.0
              if abs(det) >= 1e-15 and sin2 < 1e-6 and len(info["mjw_dist"]) < len(info["mj_dist"]):
                k = K_CAPPAR
                what = f"capsule-capsule {key}: axes parallel to sin^2 = {sin2:.1e} but float32 det = {det:.2e} >= MJ_MINVAL, non-parallel branch taken: MuJoCo {len(info['mj_dist'])} contacts, MJWarp {len(info['mjw_dist'])}"
            # both engines in their parallel branch on exact data are compared strictly; everything else only where the
            # reference is locally constant
            if k.startswith("C04:oracle:") and not exact_parallel:
              verdict = adjudicate(m, mm, d, gtypes, qs[w], gb, key, [c for c in C if tuple(sorted(c["geom"])) == key])
              if verdict != "keep":
                ties[verdict] = ties.get(verdict, 0) + 1
                continue
          fails.append((k, f"structured pose ({gtypes[ga]} g{ga}, {gtypes[gb]} g{gb}) #{w}: " + what,
                        {"xml": xml, "qpos": [qs[w].tolist()], "world": 0, "multiccd": False, **info}))  # fmt: skip
      res.count(ncmp)
      res.nontrivial(("structured", ga, gb, nworld))
      nposes += nworld
  stats["discarded_at_exact_ties"] = ties
  res.extra["structured_pair_stats"] = stats
  return fails, nposes


# =============================================================================================
# replay of fixed witnesses on the real code
# =============================================================================================
WITNESS_XML = {
  K_SOLREF: """<mujoco><worldbody>
  <geom name="g0" type="plane" size="10 10 .001" priority="0" solref="-100 -10"/>
  <body pos="0 0 0.08"><freejoint/><geom name="g1" type="sphere" size=".1" priority="1" solref="0.02 1"/></body>
  </worldbody></mujoco>""",
  K_PLANEBOX: """<mujoco><worldbody>
  <geom type="plane" size="10 10 .001" margin="0.5"/>
  <body pos="0 0 0.3"><freejoint/><geom type="box" size=".1 .1 .1"/></body>
  </worldbody></mujoco>""",
  K_CAPCAP: """<mujoco><worldbody>
  <body pos="0 0 0"><freejoint/><geom type="capsule" size=".05 .1" gap="0.02" adhesion="1"/></body>
  <body pos="0.125 0 0" euler="15 0 0"><freejoint/><geom type="capsule" size=".05 .1" gap="0.02"/></body>
  </worldbody></mujoco>""",
  K_BROADPAIR: """<mujoco><worldbody>
  <geom name="p" type="plane" size="10 10 .001"/>
  <body pos="0 0 0.13"><freejoint/><geom name="s" type="sphere" size=".1"/></body>
  </worldbody><contact><pair geom1="p" geom2="s" margin="0.05"/></contact></mujoco>""",
  K_CAPPAR: """<mujoco><worldbody>
  <body pos="0 0 3"><freejoint/><geom type="capsule" size="0.25 0.75" margin="0.03125"/></body>
  <body pos="0 0.30625 2.1" quat="0.70710678 0 0 0.70710678"><freejoint/><geom type="capsule" size="0.0625 0.25"/></body>
  </worldbody></mujoco>""",
  K_PLANEMESH: """<mujoco><asset><mesh name="cube" vertex="-1 -1 -1 1 -1 -1 1 1 -1 -1 1 -1 -1 -1 1 1 -1 1 1 1 1 -1 1 1" scale="0.1 0.1 0.1"/></asset>
  <worldbody>
  <geom type="plane" size="10 10 .001" margin="0.05"/>
  <body pos="0 0 0.16" euler="10 20 0"><freejoint/><geom type="mesh" mesh="cube"/></body>
  </worldbody></mujoco>""",
}


# exact boundaries of the writer's two comparisons, with dyadic numbers (no rounding in either engine):
# sphere r = 0.25 at z = 0.5 over the plane z = 0  ->  dist = 0.25 exactly
BOUNDARY_XML = {
  # two float32 ulps inside / outside the detection range margin + gap.  (AT dist == margin + gap exactly MuJoCo lists the
  # inactive contact and MJWarp, whose comparison is strict, does not: a difference inside the property's tolerance clause.)
  "dist<margin+gap": ("""<mujoco><worldbody><geom type="plane" size="5 5 .1" margin="0.125" gap="0.12500006"/>
  <body pos="0 0 0.5"><freejoint/><geom type="sphere" size="0.25"/></body></worldbody></mujoco>""", 1, False),
  "dist>margin+gap": ("""<mujoco><worldbody><geom type="plane" size="5 5 .1" margin="0.125" gap="0.12499994"/>
  <body pos="0 0 0.5"><freejoint/><geom type="sphere" size="0.25"/></body></worldbody></mujoco>""", 0, None),
  # dist == margin < margin + gap: listed, but inactive (in the gap)
  "dist==margin": ("""<mujoco><worldbody><geom type="plane" size="5 5 .1" margin="0.25" gap="0.125"/>
  <body pos="0 0 0.5"><freejoint/><geom type="sphere" size="0.25"/></body></worldbody></mujoco>""", 1, False),
  # two float32 ulps inside the margin: active
  "dist<margin": ("""<mujoco><worldbody><geom type="plane" size="5 5 .1" margin="0.25000006" gap="0.125"/>
  <body pos="0 0 0.5"><freejoint/><geom type="sphere" size="0.25"/></body></worldbody></mujoco>""", 1, True),
}


WITNESS_CCD = """<mujoco><option><flag multiccd="disable"/></option><worldbody>
<body pos="-0.204605766 -0.0493368461 0.0518813644" quat="0.678969722 -0.283039387 0.592383052 -0.328589626"><freejoint/><geom type="capsule" size="0.0785142 0.0525105" margin="0.0169627" gap="0.00488452"/></body>
<body pos="-0.0372934489 -0.168763706 0.137306382" quat="0.376892649 0.783646204 0.390819449 -0.301845517"><freejoint/><geom type="ellipsoid" size="0.113351 0.118601 0.0604195" margin="0.0107449"/></body>
</worldbody></mujoco>"""


def witness_contacts(xml):
  import warnings

  import mujoco

  import mujoco_warp as mjw

  m = mujoco.MjModel.from_xml_string(xml)
  d = mujoco.MjData(m)
  mujoco.mj_fwdPosition(m, d)
  with warnings.catch_warnings():
    warnings.simplefilter("ignore")
    mm = mjw.put_model(m)
  dd = mjw.put_data(m, d, nconmax=64)
  mjw.kinematics(mm, dd)
  mjw.collision(mm, dd)
  W, _ = mjw_contacts(dd, 1)
  C = []
  for i in range(d.ncon):
    c = d.contact[i]
    C.append({"geom": [int(c.geom[0]), int(c.geom[1])], "dist": float(c.dist), "solref": [float(x) for x in c.solref], "exclude": int(c.exclude),
              "includemargin": float(c.includemargin), "adhesion": float(c.adhesion)})  # fmt: skip
  Wl = [{"geom": list(c["geom"]), "dist": c["dist"], "solref": [float(x) for x in c["solref"]], "includemargin": c["includemargin"],
         "adhesion": c["adhesion"]} for c in W[0]]  # fmt: skip
  return C, Wl


def witnesses(res):
  """Replay the fixed witnesses (open findings and regression cases of the repaired ones) on MuJoCo and MJWarp."""
  out = []
  # 1. the Coq witness C04_priority_direct_solref_witness on the real kernel (arrays of the theorem) ...
  A = {
    "geom_condim": np.array([3, 3], np.int32), "geom_priority": np.array([0, 1], np.int32), "pair_dim": np.array([0], np.int32),
    "geom_solmix": _f32([[1, 1]]), "geom_solref": _f32([[[-100, -10], [0.02, 1]]]), "geom_solimp": _f32([[[0.9, 0.95, 0.001, 0.5, 2]] * 2]),
    "geom_friction": _f32([[[1, 0.005, 0.0001]] * 2]), "geom_margin": _f32([[0, 0]]), "geom_gap": _f32([[0, 0]]), "geom_adhesion": _f32([[0, 0]]),
    "pair_solref": _f32([[[0, 0]]]), "pair_solreffriction": _f32([[[0, 0]]]), "pair_solimp": _f32([[[0] * 5]]), "pair_margin": _f32([[0]]),
    "pair_gap": _f32([[0]]), "pair_adhesion": _f32([[0]]), "pair_friction": _f32([[[0] * 5]]),
  }  # fmt: skip
  o = run_contact_params(A, [(0, 1)], [(-1, -1)], [0])
  kernel_solref = [float(x) for x in o["solref"][0]]
  # ... and the same two geoms through both engines
  C, W = witness_contacts(WITNESS_XML[K_SOLREF])
  res.count(2)
  ok_model = np.allclose(kernel_solref, [0.02, 1], rtol=1e-5)  # what C04_priority_direct_solref_witness says the code computes
  res.obligation("regression witness (priority + direct solref): real contact_params returns the higher-priority geom's solref (0.02, 1) as the theorem says", ok_model, str(kernel_solref))
  if not ok_model:
    out.append((K_SOLREF, f"contact_params on geoms with priority 0/1 and solref (-100,-10)/(0.02,1) returns {kernel_solref}, expected the higher-priority geom's (0.02, 1)",
                {"xml": WITNESS_XML[K_SOLREF], "qpos": None, "kernel_solref": kernel_solref}))  # fmt: skip
  if C and W and rel_err(C[0]["solref"], W[0]["solref"]) > 1e-4:
    out.append((K_SOLREF, f"geom priorities 0/1, solref (-100,-10)/(0.02,1): mujoco.mj_collision solref {C[0]['solref']}, MJWarp {W[0]['solref']} (kernel: {kernel_solref})",
                {"xml": WITNESS_XML[K_SOLREF], "qpos": None, "mujoco": C, "mjwarp": W}))  # fmt: skip
  for name, (xml, ncon, active) in BOUNDARY_XML.items():
    C, W = witness_contacts(xml)
    res.count(1)
    res.nontrivial(("boundary", name))
    act_c = [c["exclude"] == 0 for c in C]
    act_w = [c["dist"] < c["includemargin"] or c["adhesion"] != 0.0 for c in W]
    if len(C) != ncon or (active is not None and act_c != [active]):
      res.notes.append(f"boundary witness {name}: mujoco gives {len(C)} contacts, active {act_c} (expected {ncon}, {active}); not used")
    elif len(W) != len(C) or act_w != act_c:
      out.append((f"C04:boundary:{name}", f"exact boundary {name}: mujoco.mj_collision {len(C)} contacts active {act_c}, MJWarp {len(W)} contacts active {act_w}",
                  {"xml": xml, "qpos": None, "mujoco": C, "mjwarp": W}))  # fmt: skip
  for key in (K_PLANEBOX, K_CAPCAP, K_PLANEMESH, K_BROADPAIR, K_CAPPAR):
    C, W = witness_contacts(WITNESS_XML[key])
    res.count(1)
    res.nontrivial(("witness", key))
    if len(C) != len(W):
      out.append((key, f"fixed witness: mujoco.mj_collision {len(C)} contacts (dist {[round(c['dist'], 4) for c in C]}), MJWarp {len(W)} (dist {[round(c['dist'], 4) for c in W]})",
                  {"xml": WITNESS_XML[key], "qpos": None, "mujoco": C, "mjwarp": W}))  # fmt: skip
  # CCD distance outlier: capsule / ellipsoid, 1.02 cm deep, pair margin 2.8 cm (brute-force truth: -0.01024 = MuJoCo)
  C, W = witness_contacts(WITNESS_CCD)
  res.count(1)
  res.nontrivial(("witness", K_CCD))
  if len(C) == 1 and len(W) == 1 and rel_err(C[0]["dist"], W[0]["dist"]) > 1e-3:
    out.append((K_CCD, f"capsule-ellipsoid with pair margin 0.0277: mujoco.mj_collision dist {C[0]['dist']:.5f} (= brute-force support-function minimum -0.01024), MJWarp {W[0]['dist']:.5f}",
                {"xml": WITNESS_CCD, "qpos": None, "mujoco": C, "mjwarp": W}))  # fmt: skip
  elif len(C) != len(W):
    out.append(("C04:oracle:contact-count:ccd", f"CCD witness: MuJoCo {len(C)} contacts, MJWarp {len(W)}", {"xml": WITNESS_CCD, "qpos": None, "mujoco": C, "mjwarp": W}))
  return out, ok_model


# =============================================================================================
def run(res):
  quick = res.tier == "quick"
  res.rule = (
    "T-validation: (pair, pairid, worldid) cases over random batched parameter families, distinct = agreeing non-discarded cases; "
    "correspondence: sequential write_contact calls incl. skipped / in-gap / adhesive / sensor / overflow; "
    "oracle: distinct (scene, pose) pairs, evaluations = contacts compared field by field"
  )
  import time

  t0 = time.time()

  def lap(what):
    vlib.log(f"[C04] {what}: {time.time() - t0:.0f}s")

  ok, trs, failing = propkit.prove(res, PROPS, gen_names=["collision_core"], required_funcs=FUNCS)
  lap("prove")
  tr = trs.get("collision_core")
  tbad = cbad = []
  tie_ok = True
  if tr is not None and not getattr(tr, "errors", {}):
    tbad, tstat = tvalidate(res, tr, 3 if quick else 12, 40 if quick else 100)
    res.obligation("T-validation: translated contact_params / contact_margin_gap / contact_material_params agree with compiled Warp", not tbad and tstat[0] > 0, f"agree {tstat[0]}, discarded {tstat[1]}, disagree {tstat[2]}")
    lap("T-validation")
    cbad, cstat, clean = corr_write_contact(res, 160 if quick else 1200, 100 if quick else 800)
    res.obligation("correspondence: write_contact_model (counter, guard, stores, return value) vs real write_contact", not cbad and cstat[0] > 0, f"agree {cstat[0]}, discarded {cstat[1]}, disagree {cstat[2]}")
    res.obligation("real write_contact: slots handed out once each in order, nothing written beyond min(nacon, naconmax)", clean, "")
    tie_ok = not tbad and not cbad and clean
  else:
    tie_ok = False
  lap("correspondence")
  wfails, wit_ok = witnesses(res)
  lap("witnesses")
  fails, nscene = oracle(res, 10 if quick else 150)
  lap("oracle")
  sfails, nposes = structured_oracle(res, 60 if quick else 600)
  fails += sfails
  res.obligation("structured pose families ran for every primitive pair", nposes > 0, f"{nposes} poses over {len(S_PAIRS)} type pairs x 3 size combinations")
  lap("structured")
  res.obligation("oracle ran on the full type-pair family", nscene > 0, f"{nscene} scenes x 2 worlds")
  seen = defaultdict(int)
  for key, what, data in wfails + fails:
    seen[key] += 1
    if seen[key] <= 1:
      res.violation(key, what, data)
  res.extra["oracle_failure_counts"] = dict(seen)
  new_input = any(k not in KNOWN_KEYS for k in seen)
  if tbad and not new_input:
    res.violation("C04:translator-mismatch", "translated Gallina disagrees with the compiled Warp functions (model no longer tied to code)", tbad[:3], found_input=False)
  if cbad and not new_input:
    res.violation("C04:write_contact-model-mismatch", "hand model of write_contact disagrees with the real function", cbad[:3], found_input=False)
  if (not ok or not tie_ok or not wit_ok) and not new_input and not tbad and not cbad:
    propkit.broken_proof_violation(res, "C04 theorems over regenerated collision_core.py", failing or "tie")
  res.assumptions += [
    "float32 rounding is not modelled: theorems are over R; T-validation 1e-5, oracle tolerances in tolerances()",
    "mj_contact_param (reference rule) is written from MuJoCo's documentation; MuJoCo's C source is not available here, the mujoco 3.13 binary is the oracle (margin/gap = sums, includemargin = margin, adhesion rule are its observed behaviour)",
    "multi-contact selection for plane-mesh, box-box, box-mesh, mesh-mesh (and every CCD pair when MULTICCD is enabled) is a documented heuristic that differs from MuJoCo's: only the deepest contact of such a pair is compared, count differences are reported in oracle_pair_stats",
    "deep (> 2 cm) CCD overlaps of curved shapes: contact normal not compared (ill-conditioned in both engines)",
    "NATIVECCD-disabled models, heightfields, SDF and flex are not in the oracle's family; SAP broadphase is C18's",
    "at dist == margin + gap exactly (dyadic numbers) MuJoCo lists the inactive contact, MJWarp's strict comparison does not: inside the property's tolerance clause, not reported; the boundary scenes sit two float32 ulps on either side",
    "pairs with a contact within 1e-3 of margin or margin+gap are discarded (counted in oracle_pair_stats)",
    "structured pose families (exactly parallel / perpendicular axes, edge-laid, corner / edge / face placements, slides past both ends, 3 size combinations per primitive type pair): a disagreement AT such a pose is reported only if it persists in the neighbourhood (body moved / turned by 1e-5 and 1e-4; see adjudicate()) - exact ties broken differently by float32 and float64 are inside the tolerance clause and counted in structured_pair_stats.discarded_at_exact_ties; exactly parallel capsules (float32 det == 0) are compared strictly",
    "separated box/mesh pairs (MuJoCo's SAT-style box-box function): where mujoco.mj_collision returns no contact or an approximate dist/normal but mujoco.mj_geomDistance (MuJoCo's own GJK distance) agrees with MJWarp within 1e-3 / 5e-2, MJWarp's geometry is accepted (checked against a brute-force support-function minimum: MJWarp = mj_geomDistance = truth); counted in oracle_pair_stats.reference_*_separated_polytope",
    "CCD disagreements of the random scenes are reported only where the reference is locally constant and the disagreement holds at > 7 of 12 neighbouring poses (adjudicate()); the others are counted in oracle_pair_stats.discarded_ccd_*",
    "C04 translates no primitive geometry function (contact geometry T is C20's gens_prim); the directed families here drive the whole pipeline against mujoco.mj_collision",
  ]


def replay(res, path):
  r = json.load(open(path))
  data = r.get("replay")
  if not isinstance(data, dict) or "xml" not in data:
    print("replay: no concrete input in this file (proof/correspondence breakage); re-run the check")
    return 1
  xml = data["xml"]
  if data.get("qpos") is None:
    C, W = witness_contacts(xml)
    print("mujoco :", json.dumps(C))
    print("mjwarp :", json.dumps(W))
    return 0
  import mujoco

  m = mujoco.MjModel.from_xml_string(xml)
  gtypes = ["plane", "hfield", "sphere", "capsule", "ellipsoid", "cylinder", "box", "mesh"]
  gt = [gtypes[int(t)] for t in m.geom_type]
  qs = [np.array(q) for q in data["qpos"]]
  stats = {}
  out = run_scene(xml, gt, qs, bool(data.get("multiccd")), stats)
  if out is None:
    print("replay: scene outside the model family")
    return 1
  fails, ncmp = out
  print(f"compared {ncmp} contacts; {len(fails)} disagreements")
  for k, what, _ in fails[:20]:
    print(" ", k, "|", what[:300])
  return 0
