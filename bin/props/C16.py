"""C16 Capacity overflow is never silent.

proof   : Props/C16.v (model Model/Alloc.v, lemmas Proof/Alloc.v) over allocation skeletons;
S tie   : bin/extract_alloc.py regenerates Gen/Skel_alloc.v (row_builders, slot_builders,
          overflow_probes) from /repo on every run; the per-builder wf verdicts are computed by
          vm_compute on the regenerated skeleton at run time;
C tie   : the model allocator, instantiated with the regenerated skeleton, is evaluated inside
          Coq and compared with the real mjw.step on capacity sweeps (njmax, njmax_nnz,
          naconmax from 0 to need+1, exact fit included) and with the real _compact_dofs kernel;
oracle  : the property itself on the real code: overflow == 0  =>  qacc/qpos equal the
          ample-capacity run."""

from __future__ import annotations

import json
import os
import re

import numpy as np

import propkit
import vlib

MANIFEST = {
  "text": "proof (on the model): for allocation skeletons whose guards are exact (`dropped iff old + rows > cap`) and whose sparse row metadata is stored before the non-zero guard, every dropped request sets an overflow bit, a run without overflow bit writes exactly the requested rows (as with ample capacity), all written row / non-zero / slot indices are below capacity for every capacity >= 0, and rows, counters and overflow bits do not depend on the schedule when nothing overflows. The skeleton of every allocating kernel (constraint.py row builders, write_contact, _add_geom_pair, _compact_dofs, _next_time probes) is re-extracted from the source on every run and the model, instantiated with it, is compared with the real step on capacity sweeps. Refutations (proved on explicit builder values and replayed on the real code): the connect/weld guard drops an exactly fitting block silently; a sparse builder that returns before storing efc_J_rowadr leaves njmax_nnz overflow unflagged; collision() returning early at naconmax == 0 loses all contacts without a flag. The broadphase kernels that emit pairs through _add_geom_pair (_nxn_broadphase, _sap_broadphase) are extracted too: any use of the pair counter or the capacity other than handing them to the call fails closed, and naconmax is swept for NXN / SAP_TILE / SAP_SEGMENTED on one-contact scenes with two worlds. The real step runs in a subprocess: crashes / exceptions of the real code on a capacity setting are reported as findings.",
  "note": "trusted: Coq kernel; extractor bin/extract_alloc.py (fails closed on unknown shapes); the harness that turns an ample-capacity run into the request list; Warp CPU execution order (ascending tid). Not covered: efc_jtdaj_nblock list, CCD/hfield/flex-collision/contact-sensor buffers (flagged at the allocation site), flex builders are extracted and modelled but not exercised by the correspondence, atomics interleaved below task granularity.",
  "technique": "Rocq proof over a skeleton model + S extraction + model-vs-implementation correspondence + differential oracle (capacity sweeps against the ample run)",
  "engine": "coq",
}

PROPS = "Props/C16.v"
SENT = -7
BIG_J, BIG_NNZ, BIG_CON = 192, 20000, 64

EQ_BUILDER = {0: ("_equality_connect", 3), 1: ("_equality_weld", 6), 2: ("_equality_joint", 1), 3: ("_equality_tendon", 1), 4: ("_equality_flex", 1)}


# ---------------------------------------------------------------------------------------
# directed models: one per row builder (two constraints of the kind, so that the second
# one has a non-zero rowadr), used to replay the Coq witnesses on the real code
# ---------------------------------------------------------------------------------------
def _arm(extra_joint="", extra_body=""):
  return f"""<worldbody>
<body name="a" pos="0 0 1"><joint name="j1" type="hinge" axis="0 1 0" {extra_joint}/><geom size=".1" pos=".2 0 0"/>
 <body name="b" pos=".4 0 0"><joint name="j2" type="hinge" axis="0 1 0" {extra_joint}/><geom size=".1" pos=".2 0 0"/>
  <body name="c" pos=".4 0 0"><joint name="j3" type="slide" axis="1 0 0"/><geom size=".05"/>{extra_body}</body></body></body>
</worldbody>"""


DIRECTED = {
  "_equality_connect:1": (f"""<mujoco>{_arm()}<equality><connect body1="c" body2="world" anchor="0 0 0.1"/></equality></mujoco>""", {}),
  "_equality_connect": (f"""<mujoco>{_arm()}<equality><connect body1="b" body2="world" anchor="0 0 0.1"/><connect body1="c" body2="world" anchor="0 0 0.1"/></equality></mujoco>""", {}),
  "_equality_weld:1": (f"""<mujoco>{_arm()}<equality><weld body1="c" body2="world"/></equality></mujoco>""", {}),
  "_equality_weld": (f"""<mujoco>{_arm()}<equality><weld body1="b" body2="world"/><weld body1="c" body2="world"/></equality></mujoco>""", {}),
  "_equality_joint": (f"""<mujoco>{_arm()}<equality><joint joint1="j1" joint2="j2" polycoef="0.1 1 0 0 0"/><joint joint1="j2" joint2="j3" polycoef="0.2 1 0 0 0"/></equality></mujoco>""", {}),
  "_equality_tendon": (f"""<mujoco>{_arm()}<tendon><fixed name="t0"><joint joint="j1" coef="1"/><joint joint="j2" coef="2"/></fixed><fixed name="t1"><joint joint="j2" coef="1"/><joint joint="j3" coef="-1"/></fixed><fixed name="t2"><joint joint="j3" coef="1"/></fixed></tendon>
<equality><tendon tendon1="t0" tendon2="t1" polycoef="0.1 1 0 0 0"/><tendon tendon1="t1" tendon2="t2" polycoef="0.2 1 0.1 0 0"/></equality></mujoco>""", {}),
  "_friction_dof": (f"""<mujoco>{_arm('frictionloss="0.3"')}</mujoco>""", {}),
  "_friction_tendon": (f"""<mujoco>{_arm()}<tendon><fixed name="t0" frictionloss="0.2"><joint joint="j1" coef="1"/><joint joint="j2" coef="2"/></fixed><fixed name="t1" frictionloss="0.3"><joint joint="j2" coef="1"/><joint joint="j3" coef="-1"/></fixed></tendon></mujoco>""", {}),
  "_limit_slide_hinge": (f"""<mujoco>{_arm('limited="true" range="-0.1 0.1"')}</mujoco>""", {"j1": 0.3, "j2": 0.4}),
  "_limit_ball": ("""<mujoco><worldbody><body name="a" pos="0 0 1"><joint name="b1" type="ball" limited="true" range="0 0.2"/><geom size=".1" pos=".2 0 0"/>
<body name="b" pos=".4 0 0"><joint name="b2" type="ball" limited="true" range="0 0.3"/><geom size=".1" pos=".2 0 0"/></body></body></worldbody></mujoco>""", {"b1": [0.8, 0.6, 0, 0], "b2": [0.7, 0, 0.714, 0]}),
  "_limit_tendon": (f"""<mujoco>{_arm()}<tendon><fixed name="t0" limited="true" range="-0.05 0.05"><joint joint="j1" coef="1"/><joint joint="j2" coef="2"/></fixed><fixed name="t1" limited="true" range="-0.05 0.05"><joint joint="j2" coef="1"/><joint joint="j3" coef="-1"/></fixed></tendon></mujoco>""", {"j1": 0.3, "j2": 0.2, "j3": -0.3}),
  "_efc_contact_init": ("""<mujoco><worldbody><geom name="floor" type="plane" size="5 5 .1"/>
<body name="a" pos="0 0 0.09"><freejoint/><geom size=".1"/></body><body name="b" pos="0.5 0 0.08"><freejoint/><geom size=".1"/></body>
<body name="c" pos="0 0.5 0.095"><freejoint/><geom size=".1"/></body></worldbody></mujoco>""", {}),
  "_efc_contact_init:elliptic": ("""<mujoco><option cone="elliptic"/><worldbody><geom name="floor" type="plane" size="5 5 .1"/>
<body name="a" pos="0 0 0.09"><freejoint/><geom size=".1" condim="4"/></body><body name="b" pos="0.5 0 0.08"><freejoint/><geom size=".1" condim="1"/></body>
</worldbody></mujoco>""", {}),
}  # fmt: skip


ALLKINDS = ("""<mujoco><worldbody>
<geom name="floor" type="plane" size="5 5 .1"/>
<body name="a" pos="0 0 0.09"><freejoint/><geom size=".1"/></body>
<body name="b" pos="0.5 0 0.09"><freejoint/><geom size=".1" condim="1"/></body>
<body name="c" pos="0 1 1"><joint name="h1" type="hinge" axis="0 1 0" limited="true" range="-0.1 0.1" frictionloss="0.1"/><geom size=".1" pos="0.2 0 0"/>
  <body name="d" pos="0.3 0 0"><joint name="h2" type="slide" axis="1 0 0" frictionloss="0.2"/><geom size=".05"/>
    <body name="e" pos="0.3 0 0"><joint name="bl" type="ball" limited="true" range="0 0.2"/><geom size=".05" pos="0.1 0 0"/></body></body></body>
</worldbody>
<tendon><fixed name="t0" limited="true" range="-0.05 0.05" frictionloss="0.1"><joint joint="h1" coef="1"/><joint joint="h2" coef="2"/></fixed>
<fixed name="t1"><joint joint="h2" coef="1"/></fixed></tendon>
<equality><connect body1="c" body2="world" anchor="0 0 0.1"/><weld body1="e" body2="a"/><joint joint1="h1" joint2="h2" polycoef="0 1 0 0 0"/><tendon tendon1="t0" tendon2="t1" polycoef="0 1 0.1 0 0"/></equality>
</mujoco>""", {"h1": 0.3, "h2": 0.2, "bl": [0.921, 0.389, 0, 0]})
DISABLE_VARIANTS = ("CONTACT", "EQUALITY", "FRICTIONLOSS", "LIMIT", "CONSTRAINT")


def _mk(xml, qset, sparse, cone=None, disable=None):
  import mujoco

  m = mujoco.MjModel.from_xml_string(xml)
  if disable:
    m.opt.disableflags |= int(getattr(mujoco.mjtDisableBit, "mjDSBL_" + disable))
  m.opt.jacobian = mujoco.mjtJacobian.mjJAC_SPARSE if sparse else mujoco.mjtJacobian.mjJAC_DENSE
  if cone is not None:
    m.opt.cone = cone
  d = mujoco.MjData(m)
  for jn, v in (qset or {}).items():
    a = m.jnt_qposadr[mujoco.mj_name2id(m, mujoco.mjtObj.mjOBJ_JOINT, jn)]
    v = np.atleast_1d(np.asarray(v, dtype=float))
    d.qpos[a : a + len(v)] = v
  return m, d.qpos.astype(np.float32).copy(), d.qvel.astype(np.float32).copy()


def random_case(rng, k):
  """Random small model with equalities / limits / friction / tendons / contacts, and a state."""
  import mujoco

  import models

  o = models.Opts(
    nbody=(2, 5), joint_types=("hinge", "slide", "ball", "free"), equality=int(rng.integers(0, 4)), limits=0.6,
    frictionloss=float(rng.choice([0.0, 0.5])), tendons=int(rng.integers(0, 3)), plane=bool(rng.random() < 0.6),
    contacts=bool(rng.random() < 0.6), geom_types=("sphere", "capsule", "box"), condim=(1, 3, 4, 6), sites=0.0, welded=0.1,
  )  # fmt: skip
  xml, info = models.random_model(rng, o)
  tl = info.get("tendons", [])
  for t in tl:
    if t == "ts":
      continue
    att = ""
    if rng.random() < 0.5:
      att += ' limited="true" range="-0.05 0.05"'
    if rng.random() < 0.4:
      att += ' frictionloss="0.2"'
    xml = xml.replace(f'<fixed name="{t}">', f'<fixed name="{t}"{att}>')
  fixed = [t for t in tl if t != "ts"]
  if len(fixed) >= 2 and rng.random() < 0.7:
    xml = xml.replace("</mujoco>", f'<equality><tendon tendon1="{fixed[0]}" tendon2="{fixed[1]}" polycoef="{rng.normal(0, 0.1):.3f} 1 {rng.normal(0, 0.2):.3f} 0 0"/></equality></mujoco>')
  sparse = bool(rng.random() < 0.6)
  cone = int(rng.integers(0, 2))
  m, _, _ = _mk(xml, None, sparse, cone)
  d = mujoco.MjData(m)
  models.random_state(rng, m, d, vel_scale=0.3, unnormalized=False)
  for j in range(m.njnt):  # push some limited joints beyond their range, drop free bodies near the floor
    a = m.jnt_qposadr[j]
    if m.jnt_type[j] == mujoco.mjtJoint.mjJNT_FREE:
      d.qpos[a : a + 3] = [rng.normal(0, 0.2), rng.normal(0, 0.2), rng.uniform(0.02, 0.25)]
    elif m.jnt_limited[j] and m.jnt_type[j] != mujoco.mjtJoint.mjJNT_BALL and rng.random() < 0.6:
      d.qpos[a] = m.jnt_range[j][1] + rng.uniform(0.01, 0.3) if rng.random() < 0.5 else m.jnt_range[j][0] - rng.uniform(0.01, 0.3)
  return xml, m, d.qpos.astype(np.float32).copy(), d.qvel.astype(np.float32).copy(), sparse, cone


# ---------------------------------------------------------------------------------------
# real code
# ---------------------------------------------------------------------------------------
class Real:
  """One model on the real implementation; runs one step for a capacity setting."""

  def __init__(self, m, qpos, qvel):
    import mujoco_warp as mjw

    self.mjw, self.m = mjw, m
    self.mm = mjw.put_model(m)
    self.qpos, self.qvel = qpos, qvel
    self.sparse = bool(self.mm.is_sparse)

  def _data(self, njmax, njmax_nnz, naconmax):
    import warp as wp

    d = self.mjw.make_data(self.m, nworld=1, njmax=int(njmax), njmax_nnz=int(njmax_nnz), naconmax=int(naconmax))
    d.qpos = wp.array(self.qpos[None].copy(), dtype=float)
    d.qvel = wp.array(self.qvel[None].copy(), dtype=float)
    return d

  def _read(self, d, njmax, naconmax):
    out = {
      "nefc": int(d.nefc.numpy()[0]), "ne": int(d.ne.numpy()[0]), "nf": int(d.nf.numpy()[0]), "nl": int(d.nl.numpy()[0]),
      "overflow": int(d.overflow.numpy()[0]), "nacon": int(d.nacon.numpy()[0]), "ncollision": int(d.ncollision.numpy()[0]),
      "qacc": d.qacc.numpy()[0].astype(np.float64), "qpos": d.qpos.numpy()[0].astype(np.float64),
      "type": d.efc.type.numpy()[0, :njmax].astype(int), "id": d.efc.id.numpy()[0, :njmax].astype(int),
    }  # fmt: skip
    if self.sparse:
      out["adr"] = d.efc.J_rowadr.numpy()[0, :njmax].astype(int)
      out["rnz"] = d.efc.J_rownnz.numpy()[0, :njmax].astype(int)
    if naconmax > 0:
      out["con_world"] = d.contact.worldid.numpy()[:naconmax].astype(int)
      out["con_addr"] = d.contact.efc_address.numpy()[:naconmax].astype(int)
      out["con_type"] = d.contact.type.numpy()[:naconmax].astype(int)
    return out

  def step(self, njmax, njmax_nnz, naconmax, nsteps=1):
    """The real mjw.step on fresh make_data output (natural conditions)."""
    import warp as wp

    d = self._data(njmax, njmax_nnz, naconmax)
    for _ in range(nsteps):
      self.mjw.step(self.mm, d)
    wp.synchronize()
    return self._read(d, njmax, naconmax)

  def alloc(self, njmax, njmax_nnz, naconmax, adr0, rnz0):
    """Allocation only: row type/id prefilled with a sentinel and the row metadata with given stale
    values, then the real fwd_position (collision + make_constraint) and the real _next_time kernel
    (launched directly).  The solver is not run on the sentinel rows."""
    import warp as wp

    from mujoco_warp._src import forward

    mm = self.mm
    d = self._data(njmax, njmax_nnz, naconmax)
    d.efc.type.fill_(SENT)
    d.efc.id.fill_(SENT)
    if self.sparse and njmax > 0:
      a = d.efc.J_rowadr.numpy()
      r = d.efc.J_rownnz.numpy()
      a[0, :njmax] = adr0
      r[0, :njmax] = rnz0
      d.efc.J_rowadr = wp.array(a, dtype=int)
      d.efc.J_rownnz = wp.array(r, dtype=int)
    if naconmax > 0:
      d.contact.worldid.fill_(SENT)
    self.mjw.fwd_position(mm, d)
    wp.launch(
      forward._next_time_builder(False), dim=d.nworld,
      inputs=[mm.opt.timestep, mm.is_sparse, d.nefc, d.time, d.efc.J_rownnz, d.efc.J_rowadr, d.nworld, d.naconmax, d.njmax, d.njmax_nnz, d.nacon, d.ncollision],
      outputs=[d.time, d.overflow],
    )  # fmt: skip
    wp.synchronize()
    return self._read(d, njmax, naconmax)


def derive_tasks(m, sparse, amp):
  """Request list of make_constraint for this state, from the ample-capacity run.
  Order = launch order then tid order (the order in which Warp's CPU backend allocates)."""
  import mujoco

  tasks = []
  nefc = amp["nefc"]
  ty, idv = amp["type"], amp["id"]
  rnz = amp["rnz"] if sparse else np.zeros(nefc, dtype=int)
  adr = amp["adr"] if sparse else np.zeros(nefc, dtype=int)
  i = 0
  while i < nefc:
    t, x = int(ty[i]), int(idv[i])
    p = int(rnz[i]) if sparse else 0
    act = p
    if t == 0:
      et = int(m.eq_type[x])
      if et not in EQ_BUILDER:
        raise NotImplementedError(f"equality type {et}")
      b, k = EQ_BUILDER[et]
      if et == 3 and sparse:  # requested = number of distinct dofs of the two tendons (source: merge count)
        p = int(adr[i + 1] - adr[i]) if i + 1 < nefc else _tendon_union(m, x)
    elif t == 1:
      b, k = "_friction_dof", 1
    elif t == 2:
      b, k = "_friction_tendon", 1
    elif t == 3:
      b, k = ("_limit_ball" if m.jnt_type[x] == mujoco.mjtJoint.mjJNT_BALL else "_limit_slide_hinge"), 1
    elif t == 4:
      b, k = "_limit_tendon", 1
    elif t in (5, 6, 7):
      b = "_efc_contact_init"
      k = int((amp["con_addr"][x] >= 0).sum())
    else:
      raise NotImplementedError(f"row type {t}")
    if not (np.all(ty[i : i + k] == t) and np.all(idv[i : i + k] == x)):
      raise RuntimeError(f"row grouping failed at {i}: {ty[i:i+k]} {idv[i:i+k]}")
    tasks.append((b, [(t, x, k, p, act)]))
    i += k
  return tasks


def _tendon_union(m, eqid):
  t1, t2 = int(m.eq_obj1id[eqid]), int(m.eq_obj2id[eqid])
  cols = set()
  for t in (t1, t2):
    if t >= 0:
      a, n = int(m.ten_J_rowadr[t]), int(m.ten_J_rownnz[t])
      cols |= set(int(c) for c in m.ten_J_colind[a : a + n])
  return len(cols)


def coq_tasks(tasks):
  out = []
  for b, reqs in tasks:
    qs = "; ".join(f"mkQ {t} {_z(x)} {k} {p} {a}" for t, x, k, p, a in reqs)
    out.append(f'mkT (fb "{b}") [{qs}]')
  return "[" + ";\n  ".join(out) + "]"


def _z(v):
  return f"({int(v)})" if int(v) < 0 else str(int(v))


EXTRA_HDR = (
  "From Coq Require Import String.\nFrom VF Require Import Model.Alloc Gen.Skel_alloc.\nLocal Open Scope Z_scope.\n"
  'Definition fb (n : string) : builder := find_builder n (row_builders ++ slot_builders).\n'
  "Definition zrep (n : Z) : list Z := map (fun _ => 0) (zrange n).\nLocal Open Scope string_scope.\n"
)


def need_of(tasks):
  rows = sum(k for _, qs in tasks for _, _, k, _, _ in qs)
  nnz = sum(k * p for _, qs in tasks for _, _, k, p, _ in qs)
  return rows, nnz


def first_shortfall(tasks, njmax, njmax_nnz, sparse):
  """Host arithmetic only (no guards): first task that does not fit / fits exactly."""
  e = r = 0
  exact = None
  for b, qs in tasks:
    for t, x, k, p, a in qs:
      if e + k > njmax:
        return ("rows", b, exact)
      if e + k == njmax and exact is None:
        exact = b
      if sparse and r + k * p > njmax_nnz:
        return ("nnz", b, exact)
      e += k
      r += k * p
  return (None, None, exact)


# ---------------------------------------------------------------------------------------
# sweeps
# ---------------------------------------------------------------------------------------
def close(a, b):
  a, b = np.asarray(a, float), np.asarray(b, float)
  if not (np.all(np.isfinite(a)) and np.all(np.isfinite(b))):
    return bool(np.array_equal(np.isfinite(a), np.isfinite(b)) and np.allclose(np.nan_to_num(a), np.nan_to_num(b), rtol=2e-3, atol=1e-3))
  scale = 1.0 + float(np.max(np.abs(b))) if b.size else 1.0
  return bool(np.max(np.abs(a - b)) <= 2e-3 * scale) if a.size else True


class Acc:
  """What the worker accumulates for one model (JSON-serialisable)."""

  def __init__(self):
    self.evals = 0
    self.keys = []

  def count(self, n=1):
    self.evals += n

  def nontrivial(self, k):
    self.keys.append(json.dumps(k, default=str))


class Sweep:
  def __init__(self, res, rng, progress=None, skips=(), avoid_below=0):
    self.res, self.rng = res, rng
    self.defs, self.lines, self.meta = [], [], []
    self.fails = []  # oracle failures on the real code
    self.nmodels = 0
    self.progress = progress or (lambda *a: None)
    self.skips = set(tuple(x) for x in skips)
    self.avoid_below = avoid_below
    self.zskip = True  # collision() returns early when naconmax == 0 (set from the extracted skeleton)
    self.skipped = 0

  @staticmethod
  def _exc(e, label, xml, qpos, qvel, sparse, m, njmax, nz, cap):
    import traceback

    where = "naconmax=0" if cap == 0 else ("njmax=0" if njmax == 0 else ("njmax_nnz=0" if nz == 0 else "other"))
    return {
      "key": f"C16:exception-before-overflow-flag:{where}:{type(e).__name__}", "label": label, "xml": xml, "qpos": [float(v) for v in qpos],
      "qvel": [float(v) for v in qvel], "sparse": sparse, "cone": int(m.opt.cone), "disableflags": int(m.opt.disableflags), "njmax": int(njmax), "njmax_nnz": int(nz), "naconmax": int(cap),
      "overflow": None, "nefc": None, "exception": traceback.format_exc()[-700:],
    }  # fmt: skip

  def add_model(self, label, xml, m, qpos, qvel, sparse, quick, max_nnz_pts=10, tag=0):
    res, rng = self.res, self.rng
    R = Real(m, qpos, qvel)
    amp = R.alloc(BIG_J, BIG_NNZ, BIG_CON, np.zeros(BIG_J, int), np.zeros(BIG_J, int))
    if amp["overflow"] != 0 or amp["nefc"] > BIG_J // 2 or amp["nacon"] > BIG_CON // 2:
      return False
    ref = R.step(BIG_J, BIG_NNZ, BIG_CON)
    if not (np.all(np.isfinite(ref["qacc"])) and np.max(np.abs(ref["qacc"])) < 1e7):
      return False
    try:
      tasks = derive_tasks(m, sparse, amp)
    except NotImplementedError:
      return False
    rows, nnz = need_of(tasks)
    if rows != amp["nefc"]:
      raise RuntimeError("derive_tasks lost rows")
    k = tag
    self.nmodels += 1
    self.defs.append(f"Definition ts_{k} : list task :=\n  {coq_tasks(tasks)}.\n")
    res.nontrivial(("model", label, sparse, tuple(b for b, _ in tasks)))
    # capacity settings: (njmax, njmax_nnz) ; nnz sweep only matters for sparse
    settings = [(j, BIG_NNZ) for j in range(0, rows + 2)]
    if sparse:
      pts = sorted(set(list(range(0, min(nnz, 4) + 1)) + [nnz - 1, nnz, nnz + 1] + [int(v) for v in rng.integers(0, nnz + 1, max_nnz_pts)])) if nnz > 0 else [0, 1]
      bounds = set()
      e = 0
      for b, qs in tasks:  # boundaries of every task's nnz block (exact fit of a prefix)
        for t, x, kk, p, a in qs:
          e += kk * p
          bounds |= {e - 1, e}
      pts = sorted(set(p for p in pts if p >= 0) | set(p for p in bounds if p >= 0))
      if quick and len(pts) > 16:
        keep = set(rng.choice(pts, 16, replace=False).tolist()) | {nnz - 1, nnz, 0}
        pts = sorted(p for p in pts if p in keep)
      for z in pts:
        settings.append((rows + 1, z))
        if rows > 0 and rng.random() < 0.3:
          settings.append((rows, z))
      if rows > 1:
        settings.append((rows - 1, max(nnz - 1, 0)))
    for njmax, nz in settings:
      if (njmax, nz, BIG_CON) in self.skips:
        self.skipped += 1
        continue
      self.progress(njmax, nz, BIG_CON)
      if sparse and njmax > 0:
        hi = max(nz, 0)
        rnz0 = rng.integers(0, min(hi, 6) + 1, njmax)
        adr0 = np.array([rng.integers(0, hi - r + 1) for r in rnz0])
      else:
        adr0 = rnz0 = np.zeros(njmax, int)
      c = R.alloc(njmax, nz, BIG_CON, adr0, rnz0)
      exp = [c["nefc"], c["ne"], c["nf"], c["nl"], c["overflow"] & 1, (c["overflow"] >> 1) & 1] + list(c["type"]) + list(c["id"])
      if sparse:
        exp += list(c["adr"]) + list(c["rnz"])
      sp = "true" if sparse else "false"
      self.lines.append(
        f"tvz (efc_view_fx nnz_fix {njmax} {nz} {sp} ({SENT}) (efc_run nnz_fix {njmax} {nz} {sp} ts_{k} {vlib.zlist(adr0)} {vlib.zlist(rnz0)})) {vlib.zlist(exp)}"
      )
      self.meta.append({"label": label, "njmax": njmax, "njmax_nnz": nz, "sparse": sparse, "impl": exp[:6]})
      # ---- oracle: the property itself on the real code, natural (fresh) data ----
      if sparse and nz < self.avoid_below and first_shortfall(tasks, njmax, nz, sparse)[0] == "nnz":
        self.skipped += 1  # the real full step crashed on such a setting earlier in this run (reported)
        continue
      try:
        o = R.step(njmax, nz, BIG_CON)
      except Exception as e:  # a Python exception of the real step is a result, not a dead check
        self.fails.append(self._exc(e, label, xml, qpos, qvel, sparse, m, njmax, nz, BIG_CON))
        continue
      res.count()
      expn = [o["nefc"], o["ne"], o["nf"], o["nl"], o["overflow"] & 1, (o["overflow"] >> 1) & 1]
      self.lines.append(f"tvz (firstn 6 (efc_view_fx nnz_fix {njmax} {nz} {sp} ({SENT}) (efc_run nnz_fix {njmax} {nz} {sp} ts_{k} (zrep {njmax}) (zrep {njmax})))) {vlib.zlist(expn)}")
      self.meta.append({"label": label, "njmax": njmax, "njmax_nnz": nz, "sparse": sparse, "kind": "full step, fresh data", "impl": expn})
      if o["overflow"] == 0 and not (close(o["qacc"], ref["qacc"]) and close(o["qpos"], ref["qpos"])):
        why, b, exact = first_shortfall(tasks, njmax, nz, sparse)
        if why == "nnz":
          key = f"C16:nnz-overflow-unflagged:{b}"
        elif why is None and exact is not None and o["nefc"] == njmax:
          key = f"C16:exact-fit-dropped:{exact}"
        else:
          key = f"C16:silent-drop:{b or exact}"
        self.fails.append({
          "key": key, "label": label, "xml": xml, "qpos": [float(v) for v in qpos], "qvel": [float(v) for v in qvel], "sparse": sparse,
          "cone": int(m.opt.cone), "disableflags": int(m.opt.disableflags), "njmax": int(njmax), "njmax_nnz": int(nz), "naconmax": BIG_CON, "overflow": o["overflow"], "nefc": o["nefc"],
          "qacc": [float(v) for v in o["qacc"]], "qacc_ample": [float(v) for v in ref["qacc"]],
        })  # fmt: skip
    # ---- contact capacity sweep ----
    if amp["nacon"] > 0 or amp["ncollision"] > 0:
      top = max(amp["nacon"], amp["ncollision"]) + 1
      for cap in range(0, top + 1):
        if (BIG_J, BIG_NNZ, cap) in self.skips:
          self.skipped += 1
          continue
        self.progress(BIG_J, BIG_NNZ, cap)
        c = R.alloc(BIG_J, BIG_NNZ, cap, np.zeros(BIG_J, int), np.zeros(BIG_J, int))
        written = [i for i, w in enumerate(c.get("con_world", [])) if w != SENT]
        # broadphase requests do not depend on the capacity; the narrowphase only sees the pairs
        # that fitted, so its request count is read off the real counter (except when nothing runs)
        nbp = amp["ncollision"]
        nnp = c["nacon"] if (cap > 0 or not self.zskip) else amp["nacon"]
        bp = "[" + "; ".join(['mkT (fb "_add_geom_pair") [mkQ 0 0 1 0 0]'] * nbp) + "]"
        npq = "[" + "; ".join(['mkT (fb "write_contact") [mkQ 0 0 1 0 0]'] * nnp) + "]"
        exp_np = [c["nacon"], (c["overflow"] >> 3) & 1, len(written)] + written
        exp_bp = [c["ncollision"], (c["overflow"] >> 2) & 1]
        self.lines.append(f"tvz (slot_view {cap} (run_collision collision_zero_cap_skip {cap} {npq})) {vlib.zlist(exp_np)}")
        self.meta.append({"label": label, "naconmax": cap, "kind": "narrowphase", "impl": exp_np[:3]})
        self.lines.append(f"tvz (firstn 2 (slot_view {cap} (run_collision collision_zero_cap_skip {cap} {bp}))) {vlib.zlist(exp_bp)}")
        self.meta.append({"label": label, "naconmax": cap, "kind": "broadphase", "impl": exp_bp})
        try:
          o = R.step(BIG_J, BIG_NNZ, cap)
        except Exception as e:
          self.fails.append(self._exc(e, label, xml, qpos, qvel, sparse, m, BIG_J, BIG_NNZ, cap))
          continue
        res.count()
        exp_o = [o["nacon"], (o["overflow"] >> 3) & 1, o["ncollision"], (o["overflow"] >> 2) & 1]
        nnp = o["nacon"] if (cap > 0 or not self.zskip) else amp["nacon"]
        npq = "[" + "; ".join(['mkT (fb "write_contact") [mkQ 0 0 1 0 0]'] * nnp) + "]"
        self.lines.append(
          f"tvz (firstn 2 (slot_view {cap} (run_collision collision_zero_cap_skip {cap} {npq})) ++ firstn 2 (slot_view {cap} (run_collision collision_zero_cap_skip {cap} {bp}))) {vlib.zlist(exp_o)}"
        )
        self.meta.append({"label": label, "naconmax": cap, "kind": "collision, full step", "impl": exp_o})
        if o["overflow"] == 0 and not (close(o["qacc"], ref["qacc"]) and close(o["qpos"], ref["qpos"])):
          key = "C16:collision-skipped-unflagged:naconmax=0" if cap == 0 else ("C16:contact-overflow-unflagged:write_contact" if o["nacon"] >= cap else "C16:contact-overflow-unflagged:_add_geom_pair")
          self.fails.append({
            "key": key, "label": label, "xml": xml, "qpos": [float(v) for v in qpos], "qvel": [float(v) for v in qvel],
            "sparse": sparse, "cone": int(m.opt.cone), "disableflags": int(m.opt.disableflags), "njmax": BIG_J, "njmax_nnz": BIG_NNZ, "naconmax": cap, "overflow": o["overflow"], "nefc": o["nefc"],
            "qacc": [float(v) for v in o["qacc"]], "qacc_ample": [float(v) for v in ref["qacc"]],
          })  # fmt: skip
    return True


FLEXSTRAIN_XML = """<mujoco><option jacobian="%s"/><worldbody>
<flexcomp type="grid" count="3 3 3" spacing="0.1 0.1 0.1" pos="0 0 0.5" name="cube" dim="3" mass="1" radius="0.005" dof="trilinear">
<contact selfcollide="none"/><edge equality="strain"/></flexcomp></worldbody></mujoco>"""


def jtdaj_block_cases(res, rng):
  """Newton block list of make_constraint (efc_jtdaj_adr/nrow, sparse only): on the real code the
  blocks must partition the rows [0, nefc) -- every builder registers exactly the rows it allocated.
  For the flexstrain model also: sparse Newton must agree with dense Newton."""
  import mujoco

  import mujoco_warp as mjw

  viol = []
  models = [(label, _mk(xml, qset, True)) for label, (xml, qset) in DIRECTED.items()]
  try:
    fm = mujoco.MjModel.from_xml_string(FLEXSTRAIN_XML % "sparse")
    fq = mujoco.MjData(fm).qpos.astype(np.float32) + rng.normal(0, 0.02, fm.nq).astype(np.float32)
    models.append(("_equality_flexstrain", (fm, fq, np.zeros(fm.nv, np.float32))))
  except Exception:  # this mujoco build cannot load the model: nothing to check
    fm = None
  for label, (m, qpos, qvel) in models:
    R = Real(m, qpos, qvel)
    if not hasattr(R.mm.opt, "solver") or int(m.opt.solver) != int(mujoco.mjtSolver.mjSOL_NEWTON):
      continue
    d = R._data(BIG_J * 4, BIG_NNZ * 4, BIG_CON)
    mjw.fwd_position(R.mm, d)
    nefc = int(d.nefc.numpy()[0])
    nb = int(d.efc.jtdaj_nblock.numpy()[0])
    adr = d.efc.jtdaj_adr.numpy()[0, :nb].astype(int)
    nr = d.efc.jtdaj_nrow.numpy()[0, :nb].astype(int)
    cover = np.zeros(max(nefc, int((adr + nr).max()) if nb else 0), int)
    for a, n in zip(adr, nr):
      cover[a : a + n] += 1
    res.count()
    res.nontrivial(("jtdaj", label, nefc, nb))
    if not (len(cover) == nefc and np.all(cover == 1)):
      data = {"label": label, "nefc": nefc, "nblock": nb, "adr": adr[:12].tolist(), "nrow": nr[:12].tolist(), "max_adr_plus_nrow": int((adr + nr).max())}
      if label == "_equality_flexstrain":
        q = {}
        for jac in ("dense", "sparse"):
          mj = mujoco.MjModel.from_xml_string(FLEXSTRAIN_XML % jac)
          Rj = Real(mj, qpos, qvel)
          q[jac] = Rj.step(BIG_J * 4, BIG_NNZ * 4, BIG_CON)["qacc"]
        data.update({"xml": FLEXSTRAIN_XML % "sparse", "qpos": [float(v) for v in qpos], "qacc_sparse_newton": q["sparse"].tolist()[:8], "qacc_dense_newton": q["dense"].tolist()[:8], "max_abs_diff": float(np.max(np.abs(q["sparse"] - q["dense"])))})
        if close(q["sparse"], q["dense"]):
          continue  # blocks overlap but the result is unaffected: not reported
      viol.append((
        f"C16:jtdaj-block-exceeds-allocation:{label}",
        f"Newton block list claims rows that were not allocated to it (blocks do not partition the {nefc} rows: max adr+nrow = {data['max_adr_plus_nrow']})" + (f"; sparse Newton qacc differs from dense Newton by {data.get('max_abs_diff', 0):.3g}" if "max_abs_diff" in data else ""),
        data,
      ))
  return viol


# ---------------------------------------------------------------------------------------
# broadphase algorithms: one-contact pairs, several worlds, naconmax sweep for NXN / SAP_TILE / SAP_SEGMENTED
# (a pair dropped by the broadphase is visible only through d.ncollision > naconmax; with one contact per
# pair the narrowphase cannot mask a missing BROADPHASE bit)
# ---------------------------------------------------------------------------------------
BP_NAMES = {0: "nxn", 1: "sap_tile", 2: "sap_segmented"}
BP_SCENES = {
  "spheres-on-plane": """<mujoco><worldbody><geom type="plane" size="20 20 .1"/>
<body pos="-4 0 0.098"><freejoint/><geom type="sphere" size=".1"/></body><body pos="-2 0 0.097"><freejoint/><geom type="sphere" size=".1"/></body>
<body pos="0 0 0.098"><freejoint/><geom type="sphere" size=".1"/></body><body pos="2 0 0.096"><freejoint/><geom type="sphere" size=".1"/></body>
<body pos="4 0 0.098"><freejoint/><geom type="sphere" size=".1"/></body></worldbody></mujoco>""",
  "spheres-capsule": """<mujoco><worldbody><geom type="plane" size="20 20 .1"/>
<body pos="-2 0 0.098"><freejoint/><geom type="sphere" size=".1"/></body><body pos="-1.805 0 0.098"><freejoint/><geom type="sphere" size=".1"/></body>
<body pos="1 0 0.098"><freejoint/><geom type="sphere" size=".1"/></body>
<body pos="1 0 0.29"><freejoint/><geom type="capsule" size=".1 .2" euler="0 90 0"/></body>
<body pos="3 0 0.35"><freejoint/><geom type="sphere" size=".1"/></body></worldbody></mujoco>""",
}
BP_NWORLD = 2


def _bp_step(m, mm, qpos_w, naconmax):
  import warp as wp

  import mujoco_warp as mjw

  d = mjw.make_data(m, nworld=BP_NWORLD, njmax=BIG_J, naconmax=int(naconmax))
  d.qpos = wp.array(qpos_w.astype(np.float32), dtype=float)
  mjw.step(mm, d)
  wp.synchronize()
  return {"overflow": d.overflow.numpy().astype(int), "ncollision": int(d.ncollision.numpy()[0]), "nacon": int(d.nacon.numpy()[0]), "qacc": d.qacc.numpy().astype(np.float64)}


def broadphase_cases(res, rng, zskip, progress):
  import mujoco

  import mujoco_warp as mjw

  lines, meta, fails = [], [], []
  for scene, xml in BP_SCENES.items():
    m = mujoco.MjModel.from_xml_string(xml)
    q0 = mujoco.MjData(m).qpos.copy()
    qpos_w = np.stack([q0, q0])
    for j in range(m.njnt):  # second world: every body shifted a little sideways (same contacts)
      qpos_w[1, m.jnt_qposadr[j] + 1] += 0.01 * (j + 1)
    for bp in (0, 1, 2):
      mm = mjw.put_model(m)
      mm.opt.warn_overflow = False
      mm.opt.broadphase = bp
      progress(BIG_J, bp, BIG_CON)
      ref = _bp_step(m, mm, qpos_w, BIG_CON)
      if ref["overflow"].any():
        continue
      need_p, need_c = ref["ncollision"], ref["nacon"]
      res.nontrivial(("bp", scene, bp, need_p, need_c))
      for cap in range(0, max(need_p, need_c) + 2):
        progress(BIG_J, bp, cap)
        o = _bp_step(m, mm, qpos_w, cap)
        res.count()
        runs = cap > 0 or not zskip
        bits = [int(v >> 2) & 1 for v in o["overflow"]]
        if runs:
          nbp = need_p
          bpq = "[" + "; ".join(['mkT (fb "_add_geom_pair") [mkQ 0 0 1 0 0]'] * nbp) + "]"
          lines.append(f"tvz (firstn 2 (slot_view {cap} (run_collision collision_zero_cap_skip {cap} {bpq}))) {vlib.zlist([o['ncollision'], min(bits)])}")
          meta.append({"label": f"broadphase:{scene}:{BP_NAMES[bp]}", "naconmax": cap, "kind": "broadphase counter, full step, 2 worlds", "impl": [o["ncollision"], min(bits)]})
        base = {
          "label": f"broadphase:{scene}", "xml": xml, "broadphase": bp, "nworld": BP_NWORLD, "qpos_w": qpos_w.tolist(), "naconmax": cap, "njmax": BIG_J,
          "need_pairs": need_p, "need_contacts": need_c, "overflow": o["overflow"].tolist(), "ncollision": o["ncollision"], "nacon": o["nacon"],
        }  # fmt: skip
        if runs and need_p > cap and min(bits) == 0:
          fails.append(dict(base, key=f"C16:broadphase-pairs-dropped-unflagged:{BP_NAMES[bp]}", why=f"{need_p} candidate pairs, naconmax={cap}, BROADPHASE bit missing (ncollision={o['ncollision']})"))
          continue
        for w in range(BP_NWORLD):
          if o["overflow"][w] == 0 and not close(o["qacc"][w], ref["qacc"][w]):
            key = "C16:collision-skipped-unflagged:naconmax=0" if not runs else f"C16:contact-overflow-unflagged:{BP_NAMES[bp]}"
            fails.append(dict(base, key=key, why=f"world {w}: overflow=0 but qacc differs from the ample-capacity run", qacc=o["qacc"][w].tolist(), qacc_ample=ref["qacc"][w].tolist()))
            break
  return lines, meta, fails


def compact_dofs_cases(res, rng, n):
  """Real island._compact_dofs kernel vs the model (serial counter, NVMAX flag)."""
  import warp as wp

  from mujoco_warp._src import island

  lines, meta, viol = [], [], []
  for _ in range(n):
    ntree = int(rng.integers(1, 5))
    num = rng.integers(0, 4, ntree)
    adr = np.concatenate([[0], np.cumsum(num)[:-1]]).astype(int)
    nv = int(num.sum())
    awake = (rng.random(ntree) < 0.7).astype(int)
    need = int((num * awake).sum())
    for nvmax in sorted(set([0, need - 1, need, need + 1, int(rng.integers(0, nv + 2))])):
      if nvmax < 0:
        continue
      size = max(nv, nvmax, 1)
      ncdof = wp.zeros(1, dtype=int)
      dof_cdof = wp.array(np.full((1, size), SENT), dtype=int)
      cdof_dof = wp.array(np.full((1, size), SENT), dtype=int)
      ovf = wp.zeros(1, dtype=int)
      wp.launch(
        island._compact_dofs, dim=(1,),
        inputs=[ntree, wp.array(adr, dtype=int), wp.array(num.astype(int), dtype=int), wp.array(awake[None], dtype=int), nvmax, False],
        outputs=[ncdof, dof_cdof, cdof_dof, ovf],
      )  # fmt: skip
      wp.synchronize()
      written = [i for i, v in enumerate(cdof_dof.numpy()[0]) if v != SENT]
      exp = [(int(ovf.numpy()[0]) >> 7) & 1, int(ncdof.numpy()[0])] + written
      ts = "[" + "; ".join(['mkT (fb "_compact_dofs") [mkQ 0 0 1 0 0]'] * need) + "]"
      lines.append(f"tvz (tl (slot_view {nvmax} (run_tasks {nvmax} 0 false {ts} (init_st [] [])))) {vlib.zlist(exp)}")
      meta.append({"kind": "compact_dofs", "nvmax": nvmax, "need": need, "impl": exp[:2]})
      res.count()
      res.nontrivial(("cdof", ntree, need, nvmax))
      if (exp[0] == 0) != (need <= nvmax):  # oracle: flag iff active dofs exceed nvmax
        viol.append(("C16:nvmax-overflow-unflagged:_compact_dofs", f"{need} active dofs, nvmax={nvmax}, NVMAX bit={exp[0]}", {"num": num.tolist(), "awake": awake.tolist(), "nvmax": nvmax}))
  return lines, meta, viol


# ---------------------------------------------------------------------------------------
# run-time verdicts on the regenerated skeleton
# ---------------------------------------------------------------------------------------
def skeleton_verdicts(skel):
  """Compile a small file and read vm_compute output: per builder wf_fit / wf_nnz / safe, probes."""
  names = [b["name"] for b in skel.builders]
  txt = (
    "From Coq Require Import ZArith List Bool.\nFrom VF Require Import Model.Alloc Gen.Skel_alloc.\nImport ListNotations.\n"
    "Definition b2n (b : bool) : nat := if b then 1%nat else 0%nat.\n"
    "Definition verdicts : list nat :=\n"
    "  map (fun b => b2n (wf_fit b)) (row_builders ++ slot_builders) ++\n"
    "  map (fun b => b2n (wf_builder_fx nnz_fix true b)) (row_builders ++ slot_builders) ++\n"
    "  map (fun b => b2n (safe_builder b)) (row_builders ++ slot_builders) ++\n"
    "  [b2n (probes_eqb overflow_probes expected_probes && fx_ok nnz_fix); length (row_builders ++ slot_builders)].\n"
    "Eval vm_compute in verdicts.\n"
  )
  path = "Corr/verdict_C16.v"
  with open(os.path.join(vlib.COQ, path), "w") as fh:
    fh.write(txt)
  ok, out = vlib.coqc(path, timeout=300)
  for ext in (".v", ".vo", ".vok", ".vos", ".glob"):
    try:
      os.remove(os.path.join(vlib.COQ, path[:-2] + ext))
    except FileNotFoundError:
      pass
  if not ok:
    raise RuntimeError("verdict file failed to compile:\n" + out[-2000:])
  v = vlib.parse_nat_list(out, "=")
  n = len(names)
  if v is None or len(v) != 3 * n + 2 or v[-1] != n:
    raise RuntimeError(f"cannot parse verdicts: {out[-500:]}")
  return {
    "fit": dict(zip(names, v[:n])), "nnz": dict(zip(names, v[n : 2 * n])), "safe": dict(zip(names, v[2 * n : 3 * n])), "probes_ok": bool(v[3 * n]),
  }


# ---------------------------------------------------------------------------------------
# worker: everything that executes /repo kernels runs in a subprocess, because a capacity
# setting may crash the real code (segfault); the parent then records the crashing input
# ---------------------------------------------------------------------------------------
def model_specs(tier):
  specs = []
  for label in DIRECTED:
    for sparse in (False, True):
      specs.append(("directed", label, sparse))
  for sparse in (True, False):
    for dis in (None,) + DISABLE_VARIANTS:
      specs.append(("allkinds", dis, sparse))
  for k in range(12 if tier == "quick" else 220):
    specs.append(("random", k, None))
  specs.append(("cdof", 0, None))
  specs.append(("blocks", 0, None))
  specs.append(("broadphase", 0, None))
  return specs


def worker_main(jobpath):
  import warp as wp

  try:
    wp.config.log_level = 30
  except Exception:
    pass
  job = json.load(open(jobpath))
  specs = model_specs(job["tier"])
  quick = job["tier"] == "quick"
  out = open(job["out"], "a")
  import extract_alloc

  try:
    zskip = bool(extract_alloc.extract()[2]["collision_zero_cap_skip"])
  except Exception:  # extractor fails closed; the parent reports it, the oracle still runs
    zskip = True

  def emit(kind, idx, payload):
    out.write(kind + " " + str(idx) + " " + json.dumps(payload, default=lambda o: o.tolist() if hasattr(o, "tolist") else str(o)) + "\n")
    out.flush()
    os.fsync(out.fileno())

  for idx in range(job["start"], len(specs)):
    kind, a, b = specs[idx]
    rng = np.random.default_rng(job["seed"] + 16 + 1000 * idx)
    acc = Acc()
    cur = {}
    if kind == "cdof":
      lines, meta, viol = compact_dofs_cases(acc, rng, 12 if quick else 120)
      emit("M", idx, {"label": "cdof", "defs": [], "lines": lines, "meta": meta, "fails": [], "viol": viol, "evals": acc.evals, "keys": acc.keys, "accepted": True, "skipped": 0})
      continue
    if kind == "broadphase":
      emit("S", idx, {"label": "broadphase", "sparse": False})
      lines, meta, bfails = broadphase_cases(acc, rng, zskip, lambda j, z, c: emit("B", idx, [j, z, c]))
      emit("M", idx, {"label": "broadphase", "defs": [], "lines": lines, "meta": meta, "fails": bfails, "viol": [], "evals": acc.evals, "keys": acc.keys, "accepted": True, "skipped": 0})
      continue
    if kind == "blocks":
      viol = jtdaj_block_cases(acc, rng)
      emit("M", idx, {"label": "blocks", "defs": [], "lines": [], "meta": [], "fails": [], "viol": viol, "evals": acc.evals, "keys": acc.keys, "accepted": True, "skipped": 0})
      continue
    if kind == "allkinds":
      xml, qset = ALLKINDS
      sparse, label, pts = b, f"allkinds:disable={a}", 6
      m, qpos, qvel = _mk(xml, qset, sparse, disable=a)
    elif kind == "directed":
      xml, qset = DIRECTED[a]
      sparse, label, pts = b, f"directed:{a}", 4
      m, qpos, qvel = _mk(xml, qset, sparse)
    else:
      xml, m, qpos, qvel, sparse, cone = random_case(rng, a)
      label, pts = f"random:{a}", 10
    cur.update({"label": label, "xml": xml, "qpos": [float(v) for v in qpos], "qvel": [float(v) for v in qvel], "sparse": sparse, "cone": int(m.opt.cone), "disableflags": int(m.opt.disableflags)})
    emit("S", idx, cur)
    sw = Sweep(acc, rng, progress=lambda j, z, c: emit("B", idx, [j, z, c]), skips=job["skips"].get(str(idx), []), avoid_below=job.get("avoid_below", 0))
    sw.zskip = zskip
    okm = sw.add_model(label, xml, m, qpos, qvel, sparse, quick, max_nnz_pts=pts, tag=idx)
    emit("M", idx, {"label": label, "defs": sw.defs, "lines": sw.lines, "meta": sw.meta, "fails": sw.fails, "viol": [], "evals": acc.evals, "keys": acc.keys, "accepted": bool(okm), "skipped": sw.skipped})
  emit("E", 0, {})


def run_workers(res):
  """Drive the worker; restart it after a crash of the real code. Returns (models, crashes, incomplete)."""
  import shutil
  import tempfile

  tmp = tempfile.mkdtemp(prefix="c16_", dir=vlib.BUILD)
  try:
    return _run_workers(res, tmp)
  finally:
    shutil.rmtree(tmp, ignore_errors=True)


def _run_workers(res, tmp):
  import subprocess

  outp = os.path.join(tmp, "out.jsonl")
  open(outp, "w").close()
  nspec = len(model_specs(res.tier))
  start, skips, crashes, avoid = 0, {}, [], 0
  models = {}
  env = dict(os.environ)
  for attempt in range(8 if res.tier == "quick" else 24):
    job = {"tier": res.tier, "seed": vlib.seed(), "start": start, "skips": skips, "avoid_below": avoid, "out": outp}
    jp = os.path.join(tmp, f"job{attempt}.json")
    json.dump(job, open(jp, "w"))
    n0 = os.path.getsize(outp)
    p = subprocess.run([vlib.PY, os.path.abspath(__file__), "worker", jp], env=env, capture_output=True, text=True, timeout=3000)
    with open(outp) as fh:
      fh.seek(n0)
      recs = [ln.rstrip("\n").split(" ", 2) for ln in fh if ln.strip()]
    cur_s, last_b, finished = {}, None, False
    for kind, idx, payload in recs:
      idx = int(idx)
      if kind == "S":
        cur_s[idx] = json.loads(payload)
        last_b = None
      elif kind == "B":
        last_b = (idx, json.loads(payload))
      elif kind == "M":
        models[idx] = json.loads(payload)
        last_b = None
      elif kind == "E":
        finished = True
    if finished:
      return models, crashes, False
    if last_b is None:  # died outside a capacity setting: machinery problem, not a crash of a step
      res.notes.append(f"worker exited rc={p.returncode} outside a step: {(p.stderr or '')[-600:]}")
      nxt = max(list(models) + [start - 1]) + 1
      if nxt <= start and attempt > 0:
        nxt = start + 1
      start = nxt
      if start >= nspec:
        return models, crashes, True
      continue
    idx, setting = last_b
    info = dict(cur_s.get(idx, {}))
    info.update({"njmax": setting[0], "njmax_nnz": setting[1], "naconmax": setting[2], "returncode": p.returncode, "stderr": (p.stderr or "")[-400:]})
    crashes.append(info)
    skips.setdefault(str(idx), []).append(setting)
    if info.get("sparse") and setting[1] < 8:  # tiny sparse Jacobian buffers: do not run the full step on them again
      avoid = max(avoid, 1 if setting[1] == 0 else 8)
    start = idx
  return models, crashes, True


def _crash_key(c):
  if c.get("sparse") and c["njmax_nnz"] == 0:
    return "C16:crash-before-overflow-flag:sparse-njmax_nnz=0"
  if c.get("sparse") and c["njmax_nnz"] < 8:
    return "C16:crash-before-overflow-flag:sparse-small-njmax_nnz"
  return "C16:crash-before-overflow-flag:other"


def run(res):
  res.rule = (
    "correspondence cases: one per (model, capacity setting): njmax swept 0..need+1, njmax_nnz over prefix boundaries / exact fit / random points, "
    "naconmax 0..need+1, _compact_dofs at nvmax in {0, need-1, need, need+1, random}; distinct = distinct (model, builder sequence) and compaction inputs; "
    "every setting is also an oracle evaluation (overflow == 0 => qacc/qpos equal the ample run)"
  )
  import time

  t0 = time.time()
  ok, gens_, failing = propkit.prove(res, PROPS, gen_names=["Skel_alloc"])
  vlib.log(f"[C16] prove {time.time() - t0:.0f}s ok={ok}")
  skel = gens_.get("Skel_alloc")
  verd = None
  if skel is not None:
    with vlib.Lock():
      try:
        verd = skeleton_verdicts(skel)
      except Exception as e:  # noqa
        res.obligation("skeleton verdicts (vm_compute on regenerated Gen/Skel_alloc.v)", False, str(e)[-400:])
    if verd is not None:
      res.extra["skeleton"] = {b["name"]: {k: b[k] for k in ("rows", "perrow", "cmp", "off", "loop", "deferred", "has_nnz", "ncmp", "noff", "adr_before", "rnz_before", "rnz_exact", "guard_text")} for b in skel.builders}
      res.extra["wf_verdicts"] = verd
      res.extra["nnz_fix"] = skel.host.get("nnz_fix")
      res.obligation("regenerated overflow probes equal the probes the model of _next_time copies", verd["probes_ok"], json.dumps(skel.probes)[:600])
      badblk = [b["name"] for b in skel.builders if not b.get("block_ok", True)]
      res.extra["jtdaj_block_rows_mismatch"] = badblk
      if badblk:
        res.notes.append(f"extracted skeleton: {badblk} register a Newton block (efc_jtdaj_nrow) whose row count differs from the rows they allocate; checked on the real code by the block-partition cases")
      res.obligation("safe_builder holds for every regenerated builder (alloc_in_bounds applies)", all(verd["safe"].values()), str([k for k, v in verd["safe"].items() if not v]))
  # ---- correspondence + oracle on the real code (worker subprocess) ----
  t0 = time.time()
  models, crashes, incomplete = run_workers(res)
  vlib.log(f"[C16] real-code sweep {time.time() - t0:.0f}s, {len(models)} models, {len(crashes)} crashes")
  t0 = time.time()
  defs, lines, meta, fails, viol = [], [], [], [], []
  nacc = nskip = 0
  for idx in sorted(models):
    mo = models[idx]
    res.count(mo["evals"])
    for k in mo["keys"]:
      res.nontrivial(k)
    nskip += mo["skipped"]
    if not mo["accepted"]:
      continue
    nacc += 1
    defs += mo["defs"]
    lines += mo["lines"]
    meta += mo["meta"]
    fails += mo["fails"]
    viol += mo["viol"]
  res.obligation("real-code sweep completed for every model of the corpus", not incomplete, f"{len(models)} models processed, {nacc} accepted, {len(crashes)} crashes of the real code, {nskip} settings skipped after crashes")
  corr_ok = None
  verdicts = []
  if skel is not None and lines and os.path.exists(os.path.join(vlib.COQ, "Model", "Alloc.vo")) and os.path.exists(os.path.join(vlib.COQ, "Gen", "Skel_alloc.vo")):
    import tvalid

    with vlib.Lock("corr16"):
      verdicts = tvalid.run_cases("C16", [], lines, chunk=120, extra_defs=EXTRA_HDR + "\n".join(defs))
    bad = [mt for mt, v in zip(meta, verdicts) if v != 0]
    vlib.log(f"[C16] coq cases {time.time() - t0:.0f}s")
    res.count(len(lines))
    corr_ok = not bad
    res.obligation(
      "correspondence: model allocator (regenerated skeleton) vs real step / _compact_dofs on capacity sweeps", corr_ok,
      f"{len(lines)} cases over {nacc} models, {len(bad)} disagreements" + (": " + json.dumps(bad[:3]) if bad else ""),
    )  # fmt: skip
    res.sample({"kind": "correspondence", "case": lines[0][:300], "meta": meta[0]})
    res.extra["correspondence"] = {"cases": len(lines), "models": nacc, "disagreements": len(bad)}
  else:
    res.obligation("correspondence: model allocator vs real step", False, "not run (skeleton / model not built or no cases)")
    corr_ok = False
  # ---- report genuine failures of the real code ----
  seen = {}
  for f in fails:
    seen.setdefault(f["key"], []).append(f)
  for key, fl in sorted(seen.items()):
    f = min(fl, key=lambda g: (len(g["xml"]), g["njmax"], -g.get("njmax_nnz", 0), g.get("naconmax", 0)))
    if "why" in f:
      res.violation(key, f"{f['why']}; broadphase={BP_NAMES.get(f.get('broadphase'), '?')} naconmax={f['naconmax']} nworld={f.get('nworld')} ({len(fl)} failing settings)", f)
      continue
    if "exception" in f:
      last = f["exception"].strip().splitlines()[-1]
      res.violation(key, f"the real step raises instead of flagging the overflow: {last}; njmax={f['njmax']} njmax_nnz={f['njmax_nnz']} naconmax={f['naconmax']} ({len(fl)} failing settings)", f)
      continue
    what = f"overflow=0 but qacc differs from the ample-capacity run: njmax={f['njmax']} njmax_nnz={f['njmax_nnz']} naconmax={f['naconmax']} jacobian={'sparse' if f['sparse'] else 'dense'} nefc={f['nefc']} ({len(fl)} failing settings)"
    res.violation(key, what, f)
  for key, what, data in viol:
    res.violation(key, what, data)
  cseen = {}
  for c in crashes:
    cseen.setdefault(_crash_key(c), []).append(c)
  for key, cl in sorted(cseen.items()):
    c = min(cl, key=lambda g: len(g.get("xml", "")))
    res.violation(key, f"the real step crashes (rc={c['returncode']}) instead of flagging the overflow: njmax={c['njmax']} njmax_nnz={c['njmax_nnz']} naconmax={c['naconmax']} jacobian={'sparse' if c.get('sparse') else 'dense'}", dict(c, crash=True))
  res.extra["oracle_failures"] = {k: len(v) for k, v in seen.items()}
  res.extra["crashes"] = len(crashes)
  # model says a builder is not well-formed but the real code did not reproduce it -> note only
  if verd is not None:
    for name, v in verd["fit"].items():
      if not v and not any(k.endswith(":" + name) and "exact-fit" in k for k in seen):
        res.notes.append(f"wf_fit false for {name} on the regenerated skeleton, not reproduced on the real code by this run")
    for name, v in verd["nnz"].items():
      if not v and skel.by_name()[name]["has_nnz"] and not any(k.endswith(":" + name) and "nnz" in k for k in seen):
        res.notes.append(f"sparse mode: {name} is not well-formed (wf_builder_fx nnz_fix true) on the regenerated skeleton; not reproduced on the real code by this run (no model of this kind in the corpus)")
  broken = (not ok) or (corr_ok is False) or (verd is not None and not verd["probes_ok"]) or skel is None or incomplete
  known = {k["key"] for k in vlib.load_known().get("findings", []) if k.get("property") == "C16"}
  new_keys = [f["key"] for f in fails if f["key"] not in known] + [v[0] for v in viol if v[0] not in known] + [_crash_key(c) for c in crashes if _crash_key(c) not in known]
  if broken and not new_keys:
    propkit.broken_proof_violation(res, "C16 allocation model no longer tied to the code", failing or "correspondence", data=[mt for mt, v in zip(meta, verdicts) if v != 0][:5])
  res.assumptions += [
    "Warp CPU launches run tasks in ascending tid order and launches are sequential (request order of the correspondence)",
    "a GPU schedule is modelled as a permutation of whole tasks (every decision of a task depends only on the values returned by its own atomic_adds)",
    "flex builders (_equality_flex, _equality_flexstrain, _efc_contact_init_flex) are extracted and covered by the theorems but not by the correspondence corpus",
  ]


def replay(res, path):
  import subprocess

  r = json.load(open(path))["replay"]
  if not isinstance(r, dict) or "xml" not in r:
    print("replay: no concrete input in this file (proof/correspondence breakage); re-run the check")
    return 1
  p = subprocess.run([vlib.PY, os.path.abspath(__file__), "replay1", path], capture_output=True, text=True, timeout=900)
  print("\n".join(l for l in p.stdout.splitlines() if "conda" not in l))
  if p.returncode not in (0, 1):
    print(f"real step crashed: return code {p.returncode}\nVIOLATION reproduced")
    return 1
  return p.returncode


def replay1(path):
  import mujoco
  import warp as wp

  wp.config.log_level = 30
  r = json.load(open(path))["replay"]
  if "qpos_w" in r:  # broadphase sweep finding (several worlds, explicit broadphase algorithm)
    import mujoco_warp as mjw

    m = mujoco.MjModel.from_xml_string(r["xml"])
    mm = mjw.put_model(m)
    mm.opt.warn_overflow = False
    mm.opt.broadphase = r["broadphase"]
    qw = np.array(r["qpos_w"])
    a = _bp_step(m, mm, qw, BIG_CON)
    o = _bp_step(m, mm, qw, r["naconmax"])
    print(f"ample: ncollision={a['ncollision']} nacon={a['nacon']} overflow={a['overflow']}")
    print(f"naconmax={r['naconmax']}: ncollision={o['ncollision']} nacon={o['nacon']} overflow={o['overflow']}")
    silent = [w for w in range(len(o["overflow"])) if o["overflow"][w] == 0 and not close(o["qacc"][w], a["qacc"][w])]
    unflagged = r["naconmax"] > 0 and a["ncollision"] > r["naconmax"] and any(((v >> 2) & 1) == 0 for v in o["overflow"])
    print("worlds with overflow=0 and qacc != ample:", silent, "| pairs dropped without BROADPHASE bit:", unflagged)
    bad = bool(silent) or unflagged
    print("VIOLATION reproduced" if bad else "not reproduced")
    return 1 if bad else 0
  if "qacc_dense_newton" in r:  # Newton block list finding: sparse Newton vs dense Newton on the same model
    q = {}
    for jac in ("dense", "sparse"):
      mj = mujoco.MjModel.from_xml_string(r["xml"].replace('jacobian="sparse"', f'jacobian="{jac}"'))
      q[jac] = Real(mj, np.array(r["qpos"], np.float32), np.zeros(mj.nv, np.float32)).step(BIG_J * 4, BIG_NNZ * 4, BIG_CON)["qacc"]
    print("qacc dense  Newton:", q["dense"][:6], "\nqacc sparse Newton:", q["sparse"][:6], "\nmax |diff|:", float(np.max(np.abs(q["dense"] - q["sparse"]))))
    bad = not close(q["sparse"], q["dense"])
    print("VIOLATION reproduced" if bad else "not reproduced")
    return 1 if bad else 0
  m = mujoco.MjModel.from_xml_string(r["xml"])
  m.opt.jacobian = mujoco.mjtJacobian.mjJAC_SPARSE if r["sparse"] else mujoco.mjtJacobian.mjJAC_DENSE
  m.opt.cone = r.get("cone", int(m.opt.cone))
  m.opt.disableflags = r.get("disableflags", int(m.opt.disableflags))
  R = Real(m, np.array(r["qpos"], np.float32), np.array(r["qvel"], np.float32))
  a = R.step(BIG_J, BIG_NNZ, BIG_CON)
  print("qacc ample:", a["qacc"], "overflow", a["overflow"], flush=True)
  try:
    o = R.step(r["njmax"], r["njmax_nnz"], r["naconmax"])
  except Exception as e:
    print(f"real step raised {type(e).__name__}: {e}\nVIOLATION reproduced")
    return 1
  print(f"njmax={r['njmax']} njmax_nnz={r['njmax_nnz']} naconmax={r['naconmax']}: overflow={o['overflow']} nefc={o['nefc']}")
  print("qacc      :", o["qacc"])
  bad = o["overflow"] == 0 and not close(o["qacc"], a["qacc"])
  print("VIOLATION reproduced" if bad else "not reproduced")
  return 1 if bad else 0


if __name__ == "__main__":
  import sys

  sys.path.insert(0, os.path.dirname(os.path.dirname(os.path.abspath(__file__))))
  if sys.argv[1] == "worker":
    worker_main(sys.argv[2])
  elif sys.argv[1] == "replay1":
    sys.exit(replay1(sys.argv[2]))
