"""C26 Forward and inverse dynamics are consistent.

Proof (Props/C26.v): the kernels of inverse.py and forward.py's _qfrc_smooth / _compute_damping_deriv /
_euler_damp_qfrc are machine translated (Gen/T_inverse.v, Gen/kforward.v) and shown to compute the per-dof
expressions of Model/Inverse.v; over the reals  qfrc_inverse = applied + actuator + xfrc + (forward KKT residual) +
(constraint_f - constraint_i), hence equality iff the residual vanishes; the acceleration map of the integrator
(euler with implicit damping, implicitfast) is inverted by inverse.discrete_acc for any operators with solveM a
left inverse of M and solveK a right inverse of K; stage facts of inverse() on the regenerated host program;
the flag guards of euler() and discrete_acc() agree except for EULERDAMP enabled + DAMPER disabled (_refuted,
design-phase finding F11, inherited from MuJoCo: recorded, not repaired).

Ties to the real code on every run:
  T  real kernel launches vs the translated kernels inside Coq (bin/kvalid.py);
  C  the model's maps instantiated with diagonal operators, evaluated inside Coq at binary64, against the REAL host
     functions inverse.discrete_acc and forward.euler on models whose inertia matrix is diagonal;
  S  the guard table evaluated inside Coq against the observed behaviour of the real euler() / discrete_acc() under
     the four settings of (EULERDAMP, DAMPER).
Oracle (test): forward then inverse on random models, INVDISCRETE off / on with Euler and implicitfast, against
the applied forces, the forward residual and mujoco.mj_inverse."""

from __future__ import annotations

import json
import os
import re
import time

import numpy as np

import propkit
import vlib

MANIFEST = {
  "text": "proof: per dof over the reals, with the expressions the translated kernels _qfrc_inverse and _qfrc_smooth compute, qfrc_inverse = qfrc_applied + qfrc_actuator + xfrc-term + forward KKT residual + (forward - inverse constraint force), so equality with the applied forces holds iff M qacc = qfrc_smooth + qfrc_constraint; inverse.discrete_acc's map a' -> solveM(K a') inverts the integrator's map a -> solveK(M a) for any solve operators that are left/right inverses (Euler: K x = M x + h*dd.*x with the coefficient _poly_force_deriv(damping, dpoly, qvel, 1) both kernels use; implicitfast: K = deriv_smooth_vel output); inverse() runs the committed stage sequence, writes no integration-state field except d.history and restores d.qacc; the guards of euler() and discrete_acc() agree unless EULERDAMP is enabled and DAMPER disabled (refuted). tested only: support.mul_m, solver and linear solves are what the algebra assumes (M qacc, constraint force, exact solves), float32 rounding, xfrc mapping",
  "note": "trusted: Coq kernel and stdlib real axioms; bin/translate.py (kernels validated every run against real launches); extract_launch.py / extract_flags.py; MuJoCo 3.13 binary as oracle. Tolerances: float32 kernels vs binary64 model 2e-4 (kvalid default) / 1e-4 on the toy systems; oracle 1e-3 relative to (1 + largest force term), justified in bin/props/C26.py",
  "technique": "Rocq proof over machine-translated kernels + abstract linear operators, S facts by vm_compute on the regenerated host program, correspondence at binary64 vs the real host functions, differential oracle vs MuJoCo C",
  "engine": "coq",
}

PROPS = "Props/C26.v"
KEY_F11 = "C26:discrete_acc:damper-disabled-guard-mismatch"
KEY_FLUID = "C26:discrete_acc:implicitfast:fluid-derivative-with-passive-disabled"
# Oracle tolerance.  qfrc_inverse is a sum of terms (M qacc, bias, passive, constraint force) that can be three
# orders of magnitude larger than the result; each term carries float32 rounding (2^-24 relative) amplified by the
# constraint stiffness when the constraint force is re-evaluated at an acceleration that differs by rounding.
# Errors are therefore measured relative to SCALE = 1 + max |term| + 0.06 * max_i sum_j |J_ji||f_j| and 1e-3 of that is
# the violation threshold, i.e. 1e-3 of the largest generalized force plus 1000 float32 ulps of the cancelling
# constraint terms (measured worst values are recorded in the evidence); cases whose cancelling terms exceed the
# generalized forces by more than 1e4 are discarded as ill-conditioned.
RTOL = 1e-3

F11_XML = """<mujoco><option timestep="0.01"/><worldbody><body><joint name="a" type="hinge" axis="0 1 0" damping="2"/><geom size="0.1" pos="0.3 0 0"/>
<body pos="0.3 0 0"><joint name="b" type="hinge" axis="0 1 0" damping="1"/><geom size="0.1" pos="0.3 0 0"/></body></body></worldbody></mujoco>"""


def _quiet():
  import warp as wp

  try:
    wp.config.quiet = True
  except Exception:
    pass


def flag_tables():
  import mujoco

  dis = {k[7:]: int(v) for k, v in mujoco.mjtDisableBit.__members__.items() if k.startswith("mjDSBL_")}
  enb = {k[7:]: int(v) for k, v in mujoco.mjtEnableBit.__members__.items() if k.startswith("mjENBL_")}
  return dis, enb


# ---- T: kernels -------------------------------------------------------------------------------------------
def kernel_cases(res, trs, n):
  import kvalid

  import mujoco_warp._src.forward as F
  import mujoco_warp._src.inverse as INV

  rng = np.random.default_rng(vlib.seed() + 2601)
  ti, tk = trs.get("T_inverse"), trs.get("kforward")
  out = []
  groups = []
  if ti is not None:
    fi1, fi2 = ti.kernels.get("_qfrc_inverse"), ti.kernels.get("_qfrc_eulerdamp")
    if fi1 is None or fi2 is None:
      return [{"error": "inverse.py kernels did not translate", "detail": {k: v for k, v in ti.errors.items() if "qfrc" in k}}]
    cases = []
    for k in range(n):
      nw, nv = int(rng.integers(1, 3)), int(rng.integers(1, 5))
      A = lambda s=1.0: (rng.normal(0, 1, (nw, nv)) * 10.0 ** rng.uniform(-1, 2) * s).astype(np.float32)  # noqa: E731
      ma = A()
      cases.append(dict(kernel=INV._qfrc_inverse, fi=fi1, dim=(nw, nv),
                        args=dict(qfrc_bias_in=A(), qfrc_passive_in=A(), qfrc_constraint_in=A(), Ma=ma, qfrc_inverse_out=ma),
                        bind=dict(Ma="buf", qfrc_inverse_out="buf"), written=["qfrc_inverse_out"]))  # fmt: skip  (in place, as inverse() launches it)
      res.nontrivial(("k_inv", k))
      npoly = int(rng.integers(1, nw + 1))
      cases.append(dict(kernel=INV._qfrc_eulerdamp, fi=fi2, dim=(nw, nv),
                        args=dict(opt_timestep=np.array([0.01, 0.002], dtype=np.float32)[: 1 + k % 2], dof_damping=np.abs(A(0.1))[:npoly],
                                  dof_dampingpoly=(rng.normal(0, 0.3, (npoly, nv, 2)) * (k % 3 != 0)).astype(np.float32), qvel_in=A(0.2), qacc_in=A(), qfrc_out=A()),
                        written=["qfrc_out"]))  # fmt: skip
      res.nontrivial(("k_eul", k))
    groups.append(("C26ki", "Gen.T_inverse", cases))
  if tk is not None:
    f3, f4, f5 = tk.kernels.get("_compute_damping_deriv"), tk.kernels.get("_euler_damp_qfrc"), tk.kernels.get("k_qfrc_smooth")
    if f3 is None or f4 is None or f5 is None:
      return [{"error": "forward.py kernels did not translate", "detail": dict(tk.errors)}]
    cases = []
    for k in range(max(2, n // 2)):
      nw, nv = int(rng.integers(1, 3)), int(rng.integers(1, 5))
      A = lambda s=1.0: (rng.normal(0, 1, (nw, nv)) * 10.0 ** rng.uniform(-1, 2) * s).astype(np.float32)  # noqa: E731
      cases.append(dict(kernel=F._compute_damping_deriv, fi=f3, dim=(nw, nv),
                        args=dict(dof_damping=np.abs(A(0.1)), dof_dampingpoly=rng.normal(0, 0.3, (nw, nv, 2)).astype(np.float32), qvel_in=A(0.2), deriv_out=A()), written=["deriv_out"]))  # fmt: skip
      # M in CSR-lower layout of a chain: row i has i+1 entries, the diagonal is the last one
      rownnz = np.arange(1, nv + 1, dtype=np.int32)
      rowadr = np.concatenate([[0], np.cumsum(rownnz)[:-1]]).astype(np.int32)
      nC = int(rownnz.sum())
      cases.append(dict(kernel=F._euler_damp_qfrc, fi=f4, dim=(nw, nv),
                        args=dict(opt_timestep=np.array([0.01], dtype=np.float32), M_rownnz=rownnz, M_rowadr=rowadr, damp_deriv=np.abs(A(0.1)),
                                  M_integration_out=(rng.normal(0, 1, (nw, nC))).astype(np.float32)), written=["M_integration_out"]))  # fmt: skip
      cases.append(dict(kernel=F._qfrc_smooth(False), fi=f5, dim=(nw, nv),
                        args=dict(body_treeid=np.zeros(nv + 1, dtype=np.int32), dof_bodyid=np.arange(1, nv + 1, dtype=np.int32), qfrc_applied_in=A(), tree_awake_in=np.ones((nw, 1), dtype=np.int32),
                                  qfrc_bias_in=A(), qfrc_passive_in=A(), qfrc_actuator_in=A(), qfrc_smooth_out=A()), written=["qfrc_smooth_out"]))  # fmt: skip
      res.nontrivial(("k_fwd", k))
    groups.append(("C26kf", "Gen.kforward", cases))
  for tag, imp, cases in groups:
    verdicts = kvalid.run_cases(res, tag, imp, cases)
    res.extra.setdefault("kernel_validation", {})[tag] = {"agree": verdicts.count(0), "discarded": verdicts.count(1), "disagree": verdicts.count(2)}
    for i, v in enumerate(verdicts):
      if v == 2:
        out.append({"group": tag, "case": i, "kernel": cases[i]["kernel"].key if hasattr(cases[i]["kernel"], "key") else str(cases[i]["kernel"]), "args": {a: np.asarray(b).tolist() for a, b in cases[i]["args"].items()}})
  return out


# ---- C: diagonal toy systems against the real host functions -------------------------------------------
def diag_xml(masses, damping, h):
  bodies = "".join(
    f'<body pos="{i} 0 0"><joint name="j{i}" type="slide" axis="1 0 0" damping="{d:.6g}"/><geom size="0.1" mass="{mm:.6g}"/></body>' for i, (mm, d) in enumerate(zip(masses, damping))
  )
  return f'<mujoco><option timestep="{h:.6g}" gravity="0 0 0"/><worldbody>{bodies}</worldbody></mujoco>'


DIAG_DEFS = """From VF Require Import Model.Inverse.
Definition nthf (l : list float) (i : Z) : float := nth (Z.to_nat i) l 0%float.
Definition idxs (n : nat) : list Z := map Z.of_nat (seq 0 n).
Definition dd_of (Sc : Scalar float) (damp : list float) (poly : list (list float)) (v : list float) : Z -> float :=
  fun i => @damp_deriv_val float Sc (nthf damp i) (nth (Z.to_nat i) poly nil) (nthf v i).
(* inverse.discrete_acc on a diagonal inertia matrix: the model's map with Mmul / solveM instantiated *)
Definition dacc_diag (Sc : Scalar float) (m damp : list float) (poly : list (list float)) (v : list float) (h : float) (a : list float) : list float :=
  let Mmul := fun (x : Z -> float) (i : Z) => @smul float Sc (nthf m i) (x i) in
  let solveM := fun (y : Z -> float) (i : Z) => @sdiv float Sc (y i) (nthf m i) in
  map (@discrete_acc_map float (@Kmul_euler float Sc Mmul h (dd_of Sc damp poly v)) solveM (nthf a)) (idxs (length a)).
(* forward.euler: new velocity qvel + h * integrator_acc, K's diagonal as _euler_damp_qfrc builds it *)
Definition euler_diag (Sc : Scalar float) (m damp : list float) (poly : list (list float)) (v : list float) (h : float) (a : list float) : list float :=
  let Mmul := fun (x : Z -> float) (i : Z) => @smul float Sc (nthf m i) (x i) in
  let solveK := fun (y : Z -> float) (i : Z) => @sdiv float Sc (y i) (@euler_diag_val float Sc (nthf m i) h (dd_of Sc damp poly v i)) in
  map (fun i => @sadd float Sc (nthf v i) (@smul float Sc h (@integrator_acc float Mmul solveK (nthf a) i))) (idxs (length a)).
"""


def diag_cases(res, n):
  """Real inverse.discrete_acc and forward.euler on diagonal-inertia models vs the Coq model at binary64."""
  import mujoco
  import warp as wp

  import mujoco_warp as mjw
  import tvalid
  from mujoco_warp._src import forward as FW
  from mujoco_warp._src import inverse as INV

  rng = np.random.default_rng(vlib.seed() + 2602)
  lines, meta = [], []
  for k in range(n):
    nv = int(rng.integers(1, 5))
    masses = rng.uniform(0.2, 3.0, nv).astype(np.float32)
    damping = (rng.uniform(0.0, 4.0, nv) * (rng.random(nv) < 0.8)).astype(np.float32)
    h = float(np.float32([0.01, 0.002, 0.05][k % 3]))
    m = mujoco.MjModel.from_xml_string(diag_xml(masses, damping, h))
    poly = (rng.normal(0, 0.5, (nv, 2)) * (k % 2)).astype(np.float32)
    poly = np.abs(poly)  # keep the derivative non-negative (K positive definite)
    m.dof_dampingpoly[:] = poly
    d = mujoco.MjData(m)
    qvel = rng.normal(0, 1.5, nv).astype(np.float32)
    acc = (rng.normal(0, 1, nv) * 10.0 ** rng.uniform(0, 2)).astype(np.float32)
    d.qvel[:] = qvel
    mm, dd = mjw.put_model(m), mjw.put_data(m, d)
    mjw.forward(mm, dd)
    Mdiag = np.asarray(m.body_mass[1:], dtype=np.float32)  # one slide joint per body: M = diag(body masses)
    # --- discrete_acc (Euler branch)
    dd.qacc.assign(acc.reshape(1, -1))
    out = wp.zeros((1, nv), dtype=float)
    INV.discrete_acc(mm, dd, out)
    got = out.numpy()[0].astype(np.float64)
    P = "[" + "; ".join(vlib.flist(p) for p in poly) + "]"
    lines.append(f"tv3 0x1p-13 (fun Sc => dacc_diag Sc {vlib.flist(Mdiag)} {vlib.flist(damping)} {P} {vlib.flist(qvel)} {vlib.fhex(h)} {vlib.flist(acc)}) {vlib.flist(got)}")
    meta.append({"fn": "inverse.discrete_acc", "masses": Mdiag.tolist(), "damping": damping.tolist(), "dampingpoly": poly.tolist(), "qvel": qvel.tolist(), "h": h, "qacc_in": acc.tolist(), "impl": got.tolist()})
    # --- euler: rhs is d.efc.Ma = M qacc; use the acceleration forward() left (no constraints: Ma = M qacc)
    mjw.forward(mm, dd)
    a_fwd = dd.qacc.numpy()[0].copy()
    FW.euler(mm, dd)
    got2 = dd.qvel.numpy()[0].astype(np.float64)
    lines.append(f"tv3 0x1p-13 (fun Sc => euler_diag Sc {vlib.flist(Mdiag)} {vlib.flist(damping)} {P} {vlib.flist(qvel)} {vlib.fhex(h)} {vlib.flist(a_fwd)}) {vlib.flist(got2)}")
    meta.append({"fn": "forward.euler", "masses": Mdiag.tolist(), "damping": damping.tolist(), "dampingpoly": poly.tolist(), "qvel": qvel.tolist(), "h": h, "qacc_forward": a_fwd.tolist(), "impl_qvel_after": got2.tolist()})
    res.nontrivial(("diag", k, nv))
  verdicts = tvalid.run_cases("C26d", [], lines, extra_defs=DIAG_DEFS)
  res.count(len(lines))
  res.extra["diag_correspondence"] = {"agree": verdicts.count(0), "discarded": verdicts.count(1), "disagree": verdicts.count(2)}
  if meta:
    res.sample({"kind": "diag-correspondence", **meta[0]})
  return [meta[i] for i, v in enumerate(verdicts) if v == 2]


# ---- S: guard table vs observed behaviour ------------------------------------------------------------------
def coq_guard_table():
  name = "Corr/c26_guards.v"
  txt = (
    "From Coq Require Import String List Bool.\nFrom VF Require Import Model.Inverse.\nImport ListNotations.\n"
    "Eval vm_compute in (map (fun q => (euler_modifies (fst q) (snd q), discrete_inverts (fst q) (snd q))) [(false,false);(false,true);(true,false);(true,true)]).\n"
  )
  with open(os.path.join(vlib.COQ, name), "w") as fh:
    fh.write(txt)
  ok, out = vlib.coqc(name, timeout=600)
  for ext in (".v", ".vo", ".vok", ".vos", ".glob"):
    try:
      os.remove(os.path.join(vlib.COQ, name[:-2] + ext))
    except FileNotFoundError:
      pass
  if not ok:
    raise RuntimeError("c26_guards.v failed:\n" + out[-1500:])
  vals = re.findall(r"Some (true|false)|None", " ".join(out.split()))
  vals = [v == "true" if v else None for v in vals]
  keys = [(False, False), (False, True), (True, False), (True, True)]
  return {k: (vals[2 * i], vals[2 * i + 1]) for i, k in enumerate(keys)}


def observed_guards():
  """What the real euler() / discrete_acc() do for the four settings of (EULERDAMP set, DAMPER set) on a damped
  model, and what mujoco.mj_inverse does with the same discrete acceleration."""
  import mujoco
  import warp as wp

  import mujoco_warp as mjw
  from mujoco_warp._src import forward as FW
  from mujoco_warp._src import inverse as INV

  dis, enb = flag_tables()
  out = {}
  for ed in (False, True):
    for da in (False, True):
      flags = (dis["EULERDAMP"] if ed else 0) | (dis["DAMPER"] if da else 0)
      m = mujoco.MjModel.from_xml_string(F11_XML)
      m.opt.disableflags = flags
      d = mujoco.MjData(m)
      d.qpos[:], d.qvel[:], d.qfrc_applied[:] = [0.3, -0.2], [1.0, -2.0], [0.3, -0.2]
      mm, dd, d2 = mjw.put_model(m), mjw.put_data(m, d), mjw.put_data(m, d)
      mjw.forward(mm, dd)
      a_c = dd.qacc.numpy()[0].astype(np.float64)
      FW.euler(mm, dd)
      a_d = (dd.qvel.numpy()[0].astype(np.float64) - d.qvel) / m.opt.timestep
      modifies = bool(np.max(np.abs(a_d - a_c)) > 1e-3 * (1 + np.max(np.abs(a_c))))
      # discrete_acc on the continuous acceleration: does it change it?
      mjw.forward(mm, d2)
      outa = wp.zeros((1, m.nv), dtype=float)
      INV.discrete_acc(mm, d2, outa)
      inverts = bool(np.max(np.abs(outa.numpy()[0] - a_c)) > 1e-3 * (1 + np.max(np.abs(a_c))))
      # full round trip with INVDISCRETE, MJWarp and MuJoCo
      m2 = mujoco.MjModel.from_xml_string(F11_XML)
      m2.opt.disableflags, m2.opt.enableflags = flags, enb["INVDISCRETE"]
      mm2 = mjw.put_model(m2)
      d3 = mjw.put_data(m2, d)
      d3.qacc.assign(a_d.astype(np.float32).reshape(1, -1))
      mjw.inverse(mm2, d3)
      dm = mujoco.MjData(m2)
      dm.qpos[:], dm.qvel[:], dm.qfrc_applied[:] = d.qpos, d.qvel, d.qfrc_applied
      mujoco.mj_step(m2, dm)
      a_dm = (dm.qvel - d.qvel) / m.opt.timestep
      dm2 = mujoco.MjData(m2)
      dm2.qpos[:], dm2.qvel[:] = d.qpos, d.qvel
      dm2.qacc[:] = a_dm
      mujoco.mj_inverse(m2, dm2)
      out[(ed, da)] = {
        "euler_modifies": modifies, "discrete_acc_changes": inverts, "qfrc_applied": [0.3, -0.2], "qfrc_inverse_mjw": d3.qfrc_inverse.numpy()[0].tolist(),
        "qfrc_inverse_mujoco": dm2.qfrc_inverse.tolist(), "discrete_qacc_mjw": a_d.tolist(), "discrete_qacc_mujoco": a_dm.tolist(),
      }  # fmt: skip
  return out


FLUID_XML = """<mujoco><option timestep="0.01" density="1000" viscosity="0.5" integrator="implicitfast"/><worldbody>
<body pos="0 0 1"><joint name="a" type="hinge" axis="0 1 0" damping="0.2"/><geom type="ellipsoid" size="0.1 0.05 0.02" pos="0.3 0 0" fluidshape="ellipsoid"/>
<body pos="0.3 0 0"><joint name="b" type="hinge" axis="1 0 0" damping="0.1"/><geom type="box" size="0.1 0.05 0.03" pos="0.3 0 0"/></body></body></worldbody></mujoco>"""


def fluid_discrete_case():
  """implicitfast + fluid forces: discrete inverse of the acceleration the step used, for flag settings in which
  implicit() does / does not solve with M - h*qDeriv."""
  import mujoco

  import mujoco_warp as mjw

  dis, enb = flag_tables()
  out = {}
  for label, flags in (("none", 0), ("SPRING|DAMPER", dis["SPRING"] | dis["DAMPER"]), ("SPRING|DAMPER|ACTUATION", dis["SPRING"] | dis["DAMPER"] | dis["ACTUATION"])):
    m = mujoco.MjModel.from_xml_string(FLUID_XML)
    m.opt.disableflags = flags
    d = mujoco.MjData(m)
    d.qvel[:], d.qfrc_applied[:] = [3.0, -2.0], [0.3, -0.2]
    mm, dd, d2 = mjw.put_model(m), mjw.put_data(m, d), mjw.put_data(m, d)
    mjw.step(mm, dd)
    a_d = (dd.qvel.numpy()[0].astype(np.float64) - d.qvel) / m.opt.timestep
    m2 = mujoco.MjModel.from_xml_string(FLUID_XML)
    m2.opt.disableflags, m2.opt.enableflags = flags, enb["INVDISCRETE"]
    mm2 = mjw.put_model(m2)
    d2.qacc.assign(a_d.astype(np.float32).reshape(1, -1))
    mjw.inverse(mm2, d2)
    dm = mujoco.MjData(m2)
    dm.qvel[:], dm.qfrc_applied[:] = d.qvel, d.qfrc_applied
    mujoco.mj_step(m2, dm)
    dm2 = mujoco.MjData(m2)
    dm2.qvel[:] = d.qvel
    dm2.qacc[:] = (dm.qvel - d.qvel) / m.opt.timestep
    mujoco.mj_inverse(m2, dm2)
    out[label] = {"qfrc_applied": [0.3, -0.2], "qfrc_inverse_mjw": d2.qfrc_inverse.numpy()[0].tolist(), "qfrc_inverse_mujoco": dm2.qfrc_inverse.tolist()}
  return {"xml": FLUID_XML, "qvel0": [3.0, -2.0], "runs": out}


# ---- oracle ------------------------------------------------------------------------------------------------
def random_xml(k, integ):
  import models

  rng = np.random.default_rng(vlib.seed() + 2600 + k)
  o = models.Opts(
    nbody=(2, 6), plane=True, contacts=True, actuators=int(rng.integers(0, 4)), equality=int(rng.integers(0, 2)), limits=0.4, tendons=int(rng.integers(0, 2)),
    geom_types=("sphere", "capsule"), joint_types=("hinge", "slide", "ball", "free") if integ == "Euler" else ("hinge", "slide", "ball"), damping=0.8,
    option=f'integrator="{integ}" jacobian="{["dense", "sparse"][(k // 2) % 2]}" cone="{["pyramidal", "elliptic"][(k // 4) % 2]}"',
  )  # fmt: skip
  xml, _ = models.random_model(rng, o)
  return xml


def xfrc_map(m, d, xfrc):
  import mujoco

  out = np.zeros(m.nv)
  for b in range(1, m.nbody):
    q = np.zeros(m.nv)
    mujoco.mj_applyFT(m, d, xfrc[b, :3].copy(), xfrc[b, 3:].copy(), d.xipos[b].copy(), b, q)
    out += q
  return out


def cancellation(m, d):
  """max_i sum_j |J_ji| |f_j| from MuJoCo's float64 data: the magnitude of the terms whose sum is qfrc_constraint.
  When it exceeds the result by orders of magnitude, float32 carries no correct digit of the sum."""
  import mujoco

  ne = int(d.nefc)
  if ne == 0 or m.nv == 0:
    return 0.0
  f = np.abs(np.asarray(d.efc_force)[:ne])
  acc = np.zeros(m.nv)
  if mujoco.mj_isSparse(m):
    J, nnz, adr, col = np.asarray(d.efc_J), np.asarray(d.efc_J_rownnz), np.asarray(d.efc_J_rowadr), np.asarray(d.efc_J_colind)
    for j in range(ne):
      sl = slice(int(adr[j]), int(adr[j]) + int(nnz[j]))
      np.add.at(acc, col[sl], np.abs(J[sl]) * f[j])
  else:
    J = np.abs(np.asarray(d.efc_J).reshape(-1)[: ne * m.nv].reshape(ne, m.nv))
    acc = J.T @ f
  return float(np.max(acc))


# cases whose constraint force is the difference of terms more than COND times larger than every generalized force
# are discarded: float32 (2^-24 relative per term) leaves fewer than ~3 correct digits of qfrc_constraint there
COND = 1e4
STATE = ["qpos", "qvel", "act", "time", "qacc_warmstart", "ctrl", "qfrc_applied", "xfrc_applied", "mocap_pos", "mocap_quat"]


# directed family for polynomial joint damping (damping="b0 b1 b2": force -(b0 v + b1 v|v| + b2 v^3)): the Euler step
# integrates the derivative b0 + 2 b1 |v| + 3 b2 v^2 implicitly, discrete_acc must invert exactly that, also for dofs
# whose LINEAR part is zero
POLY_XML = """
<mujoco>
  <option timestep=".01" gravity="-1 -1 -3" integrator="{integ}"/>
  <worldbody>
    <body>
      <geom type="sphere" size=".1" pos=".5 0 0"/>
      <joint name="joint1" type="hinge" axis="0 1 0" damping="{d1}"/>
      <body>
        <geom type="sphere" size=".2" pos="1 0 0"/>
        <joint name="joint2" type="hinge" axis="0 1 0" damping="{d2}"/>
        <body pos="1 0 0">
          <geom type="capsule" size=".05" fromto="0 0 0 0 .4 0"/>
          <joint name="joint3" type="slide" axis="0 0 1" damping="{d3}"/>
        </body>
      </body>
    </body>
  </worldbody>
  <actuator><motor joint="joint1"/><motor joint="joint3" gear="2"/></actuator>
  {equality}
</mujoco>
"""
POLY_EQUALITY = '<equality><joint joint1="joint1" joint2="joint2"/></equality>'
POLY_DAMPING = (
  ("linear", ".1", ".2", ".3"),
  ("linear+poly", ".1 .5 .2", ".2 .3 .1", ".3 1 1"),
  ("mixed", ".1", "0 2 1", ".3 1 1"),
  ("poly-only", "0 2 1", "0 3 2", "0 4 3"),
)


def poly_xml(spec, constrained, integ):
  return POLY_XML.format(d1=spec[1], d2=spec[2], d3=spec[3], equality=POLY_EQUALITY if constrained else "", integ=integ)


def apply_poly(m, seed):
  """Random non-negative dof_dampingpoly on a compiled model; about a third of the damped dofs lose their LINEAR
  part (damping = 0 with a non-zero polynomial part).  Deterministic in (model, seed): every copy gets the same."""
  rng = np.random.default_rng(seed + 77)
  if m.nv == 0:
    return
  poly = np.abs(rng.normal(0, 0.3, (m.nv, 2)))
  poly[rng.random(m.nv) < 0.3] = 0.0
  zero_lin = (rng.random(m.nv) < 0.35) & (poly.sum(axis=1) > 0)
  m.dof_dampingpoly[:] = poly.astype(np.float32)
  m.dof_damping[zero_lin] = 0.0


def oracle_case(xml, seed, discrete, poly=False):
  """forward (then step for the discrete variant) then inverse.  Returns a dict of scaled errors."""
  import mujoco

  import models
  import mujoco_warp as mjw

  _, enb = flag_tables()
  m = mujoco.MjModel.from_xml_string(xml)
  if poly:
    apply_poly(m, seed)
  rng = np.random.default_rng(seed)
  ds = mujoco.MjData(m)
  models.random_state(rng, m, ds, vel_scale=0.5, unnormalized=False)
  ds.qfrc_applied[:] = rng.normal(0, 0.3, m.nv).astype(np.float32)
  ds.xfrc_applied[1:] = rng.normal(0, 0.3, (m.nbody - 1, 6)).astype(np.float32)
  mm = mjw.put_model(m)
  dd = mjw.put_data(m, ds, nconmax=128, njmax=512)
  mjw.forward(mm, dd)
  mujoco.mj_forward(m, ds)
  out = {"counts_differ": int(dd.nefc.numpy()[0]) != int(ds.nefc) or int(dd.nacon.numpy()[0]) != int(ds.ncon), "nefc": int(ds.nefc)}
  qa, qb = dd.qacc.numpy()[0].astype(np.float64), np.asarray(ds.qacc)
  # mj_inverse is only a reference where the two FORWARD solutions agree (a forward disagreement belongs to the
  # solver / collision properties, not to C26)
  out["forward_differs"] = bool(m.nv and np.max(np.abs(qa - qb)) > RTOL * (1 + np.max(np.abs(qb))))
  target = ds.qfrc_applied + dd.qfrc_actuator.numpy()[0].astype(np.float64) + xfrc_map(m, ds, ds.xfrc_applied)
  Ma = dd.efc.Ma.numpy()[0].astype(np.float64) if int(dd.nefc.numpy()[0]) else None
  g = lambda n: getattr(dd, n).numpy()[0].astype(np.float64)  # noqa: E731
  if Ma is None:  # solver not run: M qacc = qfrc_smooth by the linear solve
    resid = np.zeros(m.nv)
    MaV = g("qfrc_smooth")
  else:
    MaV = Ma
    resid = Ma - g("qfrc_smooth") - g("qfrc_constraint")
  scale = 1 + max(np.max(np.abs(x)) if x.size else 0.0 for x in (MaV, g("qfrc_bias"), g("qfrc_passive"), g("qfrc_constraint")))
  out["scale"], out["residual"] = float(scale), float(np.max(np.abs(resid))) if m.nv else 0.0
  out["cancellation"] = cancellation(m, ds)
  if out["cancellation"] > COND * scale:
    out["unstable"] = True  # ill-conditioned: discarded
    out["vs_identity"] = out["vs_mujoco"] = 0.0
    return out
  # qfrc_constraint = J^T f is re-evaluated at an acceleration that differs by float32 rounding; its sensitivity
  # J^T D J |dqacc| is of the order of the cancelling terms |J|^T |f| times the relative rounding of qacc:
  # allow 1000 float32 ulps (6e-5) of that magnitude on top of RTOL * (1 + largest generalized force)
  scale = scale + 0.06 * out["cancellation"]
  out["scale"] = float(scale)
  if not discrete:
    before = {n: getattr(dd, n).numpy().copy() for n in STATE}
    qacc0 = dd.qacc.numpy().copy()
    mjw.inverse(mm, dd)
    qi = g("qfrc_inverse")
    out["state_changed"] = [n for n in STATE if not np.array_equal(before[n], getattr(dd, n).numpy(), equal_nan=True)]
    out["qacc_changed"] = not np.array_equal(qacc0, dd.qacc.numpy(), equal_nan=True)
    ds.qacc[:] = qacc0[0]  # the same acceleration for both inverse functions
    mujoco.mj_inverse(m, ds)
    out["vs_identity"] = float(np.max(np.abs(qi - target - resid))) / scale if m.nv else 0.0
    out["vs_mujoco"] = float(np.max(np.abs(qi - ds.qfrc_inverse))) / scale if m.nv else 0.0
    return out
  qv0 = dd.qvel.numpy()[0].astype(np.float64)
  d2 = mjw.put_data(m, ds, nconmax=128, njmax=512)
  mjw.step(mm, dd)
  a_d = (dd.qvel.numpy()[0].astype(np.float64) - qv0) / m.opt.timestep
  m2 = mujoco.MjModel.from_xml_string(xml)
  if poly:
    apply_poly(m2, seed)
  m2.opt.enableflags = enb["INVDISCRETE"]
  mm2 = mjw.put_model(m2)
  a32 = a_d.astype(np.float32).reshape(1, -1)
  d2.qacc.assign(a32)
  mjw.inverse(mm2, d2)
  qi = d2.qfrc_inverse.numpy()[0].astype(np.float64)
  out["qacc_changed"] = not np.array_equal(d2.qacc.numpy(), a32)
  dsm = mujoco.MjData(m)
  for n in ("qpos", "qvel", "act", "ctrl", "qfrc_applied", "xfrc_applied", "mocap_pos", "mocap_quat"):
    getattr(dsm, n)[:] = getattr(ds, n)
  mujoco.mj_step(m, dsm)
  a_dm = (dsm.qvel - qv0) / m.opt.timestep
  out["forward_differs"] = bool(out["forward_differs"] or (m.nv and np.max(np.abs(a_d - a_dm)) > RTOL * (1 + np.max(np.abs(a_dm)))))
  ds.qacc[:] = a32[0].astype(np.float64)  # exactly the (float32-representable) acceleration MJWarp is given
  mujoco.mj_inverse(m2, ds)
  # the discrete acceleration is a velocity difference divided by h: float32 qvel carries 2^-24 |qvel| / h of noise,
  # multiplied by the inertia; it is far below RTOL*scale for the oracle's models (h >= 0.002, |qvel| ~ 1)
  out["vs_identity"] = float(np.max(np.abs(qi - target - resid))) / scale if m.nv else 0.0
  out["vs_mujoco"] = float(np.max(np.abs(qi - ds.qfrc_inverse))) / scale if m.nv else 0.0
  out["discrete_minus_continuous"] = float(np.max(np.abs(a_d - dd.qacc.numpy()[0]))) if m.nv else 0.0
  out["unstable"] = bool(not np.all(np.isfinite(a_d)) or not np.all(np.isfinite(qi)))
  return out


def run(res):
  _quiet()
  quick = res.tier == "quick"
  t0 = time.time()
  res.rule = (
    "T: real launches of _qfrc_inverse (in place), _qfrc_eulerdamp, _compute_damping_deriv, _euler_damp_qfrc, _qfrc_smooth vs the translated kernels (random shapes, per-world / shared model arrays, zero and non-zero dampingpoly); "
    "C: real inverse.discrete_acc and forward.euler on diagonal-inertia models (1..4 dofs, 3 time steps, random damping, dampingpoly, velocities) vs the Coq maps at binary64; "
    "S: guard table vs observed behaviour for the 4 settings of (EULERDAMP, DAMPER); "
    "oracle: random models (plane + sphere/capsule contacts, actuators, tendons, equality, limits, damping; every other model with random polynomial damping, a third of whose dofs have zero linear part) and a directed 3-dof family with damping specs linear / linear+poly / mixed / poly-only, with and without an equality, x {Euler, implicitfast} x {continuous, INVDISCRETE}: qfrc_inverse vs applied+actuator+xfrc+residual and vs mujoco.mj_inverse, relative to the largest force term"
  )
  ok, trs, failing = propkit.prove(res, PROPS, gen_names=["Skel_pipeline", "Skel_flags", "T_inverse", "kforward"])
  vlib.log(f"[C26] proof built: {time.time() - t0:.1f} s")
  found = False

  kbad = kernel_cases(res, trs, 10 if quick else 100)
  res.obligation("kernel validation: translated inverse.py / forward.py kernels agree with the real kernel launches", not kbad, f"{len(kbad)} disagreements; {res.extra.get('kernel_validation')}")
  dbad = diag_cases(res, 16 if quick else 160) if ok else []
  res.obligation("correspondence: Model/Inverse.v maps (diagonal operators, binary64) vs real inverse.discrete_acc and forward.euler", not dbad, f"{len(dbad)} disagreements; {res.extra.get('diag_correspondence')}")
  vlib.log(f"[C26] correspondences: {time.time() - t0:.1f} s")

  # guard table
  obs = observed_guards()
  res.count(len(obs))
  gbad = []
  if ok:
    tab = coq_guard_table()
    for k2, (em, di) in tab.items():
      res.nontrivial(("guard", k2))
      if em != obs[k2]["euler_modifies"] or di != obs[k2]["discrete_acc_changes"]:
        gbad.append({"eulerdamp_set": k2[0], "damper_set": k2[1], "coq": {"euler_modifies": em, "discrete_inverts": di}, "observed": obs[k2]})
    res.obligation("S tie: guard table (Coq, from the regenerated truth tables) == observed behaviour of the real euler() / discrete_acc()", not gbad, json.dumps(gbad[:2]) if gbad else "4 settings")
    res.sample({"kind": "guards", "table": {f"EULERDAMP={int(a)},DAMPER={int(b)}": v for (a, b), v in tab.items()}})
  # F11 on the real code: the round trip under EULERDAMP enabled + DAMPER disabled
  f11 = obs[(False, True)]
  off = float(np.max(np.abs(np.array(f11["qfrc_inverse_mjw"]) - np.array(f11["qfrc_applied"]))))
  same_as_mujoco = float(np.max(np.abs(np.array(f11["qfrc_inverse_mjw"]) - np.array(f11["qfrc_inverse_mujoco"])))) < 1e-3
  if off > 1e-2:
    found = True
    res.violation(
      KEY_F11,
      "INVDISCRETE with Euler, DAMPER disabled and EULERDAMP enabled: euler() tests EULERDAMP|DAMPER and advances with d.qacc unchanged, inverse.discrete_acc tests only EULERDAMP and still applies qacc -> M^-1 (M + h diag(damping)) qacc, so inverse of the acceleration the step used does not return the applied force"
      + (" (mujoco.mj_inverse returns the same numbers: inherited from MuJoCo, recorded, not repaired)" if same_as_mujoco else " (and differs from mujoco.mj_inverse)"),
      {"xml": F11_XML, "qpos0": [0.3, -0.2], "qvel0": [1.0, -2.0], "disableflags": "mjDSBL_DAMPER", "enableflags": "mjENBL_INVDISCRETE", **f11},
    )
  for k2 in ((False, False), (True, False), (True, True)):
    r = obs[k2]
    if float(np.max(np.abs(np.array(r["qfrc_inverse_mjw"]) - np.array(r["qfrc_applied"])))) > 1e-3:
      found = True
      res.violation(f"C26:discrete-roundtrip:euler:eulerdamp={int(k2[0])},damper={int(k2[1])}", "discrete inverse of the acceleration euler() used does not return the applied force", {"xml": F11_XML, **r})

  fl = fluid_discrete_case()
  res.count(len(fl["runs"]))
  for label, r in fl["runs"].items():
    res.nontrivial(("fluid", label))
    if float(np.max(np.abs(np.array(r["qfrc_inverse_mjw"]) - np.array(r["qfrc_applied"])))) > 1e-2:
      found = True
      res.violation(
        KEY_FLUID if label == "SPRING|DAMPER|ACTUATION" else f"C26:discrete-roundtrip:implicitfast:fluid:{label}",
        f"(regression of the finding repaired in /repo a0466b7) implicitfast, fluid forces, flags {label}: implicit() advances with d.qacc unchanged (ACTUATION, SPRING and DAMPER all disabled) but inverse.discrete_acc still multiplies by M - h*qDeriv, and deriv_smooth_vel adds the fluid derivative although passive() has switched the fluid force off; the discrete inverse does not return the applied force (mujoco.mj_inverse does); same root cause and repair as C32:deriv_smooth_vel:fluid-derivative-with-passive-disabled",
        fl,
      )

  # ---- oracle
  nmodels = 16 if quick else 160
  bad, worst, nrun, nskip, ncon, nfwd = [], {"vs_identity": 0.0, "vs_mujoco": 0.0}, 0, 0, 0, 0
  ocases = []
  for k in range(nmodels):
    for integ in ("Euler", "implicitfast"):
      xml = random_xml(k, integ)
      for discrete in (False, True):
        # every other model also gets random polynomial damping (some dofs with zero linear part)
        ocases.append((k, integ, discrete, xml, vlib.seed() + 9000 + k, k % 2 == 1))
  for si, spec in enumerate(POLY_DAMPING):
    for constrained in (False, True):
      for integ in ("Euler", "implicitfast"):
        for discrete in ((True,) if quick else (False, True)):
          ocases.append((f"poly:{spec[0]}:{'eq' if constrained else 'free'}", integ, discrete, poly_xml(spec, constrained, integ), vlib.seed() + 9500 + si, False))
  for k, integ, discrete, xml, oseed, poly in ocases:
    if True:
      if True:
        try:
          r = oracle_case(xml, oseed, discrete, poly)
        except Exception as e:
          r = {"exception": f"{type(e).__name__}: {e}", "vs_identity": float("inf"), "vs_mujoco": 0.0, "counts_differ": False, "nefc": 0}
        res.count()
        nrun += 1
        if r.get("unstable"):
          nskip += 1
          continue
        res.nontrivial(("oracle", k, integ, discrete))
        ncon += r["nefc"] > 0
        worst["vs_identity"] = max(worst["vs_identity"], r["vs_identity"])
        probs = []
        if not (r["vs_identity"] <= RTOL):
          probs.append("identity")
        if r.get("state_changed"):
          probs.append("state:" + r["state_changed"][0])
        if r.get("qacc_changed"):
          probs.append("qacc-not-restored")
        nfwd += bool(r.get("forward_differs"))
        if not r["counts_differ"] and not r.get("forward_differs"):  # same active set and forward solution: compare with mj_inverse
          worst["vs_mujoco"] = max(worst["vs_mujoco"], r["vs_mujoco"])
          if not (r["vs_mujoco"] <= RTOL):
            probs.append("mujoco")
        if probs:
          bad.append({"case": k, "integrator": integ, "discrete": discrete, "problems": probs, "result": r, "xml": xml, "seed": oseed, "poly": poly})
  res.obligation("oracle: inverse(forward) returns the applied forces (+ forward residual), agrees with mujoco.mj_inverse, leaves state and qacc alone", not bad, f"{nrun} runs ({ncon} with active constraints, {nskip} ill-conditioned or non-finite discarded, {nfwd} not compared with mj_inverse because the forward solutions already differ), worst scaled errors {worst}, {len(bad)} failures")
  res.extra["oracle_worst_scaled_error"] = worst
  res.sample({"kind": "oracle", "runs": nrun, "with_constraints": ncon, "worst": worst})
  for f in bad[:4]:
    found = True
    res.violation(f"C26:oracle:{f['integrator']}:{'discrete' if f['discrete'] else 'continuous'}:{f['problems'][0]}", f"forward then inverse: {f['problems']} (scaled errors {f['result'].get('vs_identity')}, {f['result'].get('vs_mujoco')})", f)
  vlib.log(f"[C26] oracle: {time.time() - t0:.1f} s")

  if (not ok or kbad or dbad or gbad) and not found:
    propkit.broken_proof_violation(res, "C26 theorems / correspondences over the regenerated kernels and host program", failing or "correspondence", {"kernels": kbad[:2], "diag": dbad[:2], "guards": gbad[:2]})
  res.assumptions += [
    "the algebra takes Ma = (M qacc)_i from support.mul_m, the constraint force from the solver / inv_constraint and exact linear solves as given (C21, C06); the oracle measures the composition on the real code",
    "implicitfast: K is whatever derivative.deriv_smooth_vel returns; the theorem needs only that the integrator and discrete_acc use the SAME K (same function, same state), checked by the oracle",
    "xfrc_applied enters as an additive joint-space term (support.xfrc_accumulate); its mapping is compared with mujoco.mj_applyFT by the oracle only",
  ]


def replay(res, path):
  _quiet()
  r = json.load(open(path))
  data = r.get("replay") or {}
  if r.get("key", "").startswith("C26:discrete") and "fluid" in r.get("key", ""):
    print(json.dumps(fluid_discrete_case()["runs"], indent=1))
    return 0
  if r.get("key") == KEY_F11 or (isinstance(data, dict) and data.get("xml") == F11_XML):
    print(json.dumps({f"EULERDAMP={int(a)},DAMPER={int(b)}": v for (a, b), v in observed_guards().items()}, indent=1))
    return 0
  if isinstance(data, dict) and "xml" in data and "seed" in data:
    print(json.dumps(oracle_case(data["xml"], data["seed"], bool(data.get("discrete")), bool(data.get("poly"))), indent=1, default=str))
    return 0
  print("replay: no concrete input in this file (proof / correspondence breakage); re-run the check")
  return 1
