"""C09 Worlds in a batch do not influence each other."""

from __future__ import annotations

import numpy as np

import propkit
import vlib

MANIFEST = {
  "text": "proof: non-interference theorem over an operational model of kernel tasks (any kernels obeying the batch-indexing discipline, any launch, any schedule) + vm_compute fact that the access table regenerated from every kernel reachable from step/forward/inverse obeys the discipline up to a committed, justified baseline; flat contact buffer / atomic counters are covered by C16's allocation theorems; the dynamic experiment (batch vs single-world vs permuted batch, bit-exact) validates the whole pipeline on sampled models",
  "note": "trusted: extract_access.py abstract interpretation (ast) and its role table from types.py; Model/BatchBaseline.v hand-inspected exceptions; Warp tile primitives treated as whole-row accesses",
  "technique": "Rocq proof of non-interference from an access discipline + regenerated access table checked by vm_compute (S) + differential batch experiment",
  "engine": "coq",
}


SLEEP_XML = """
<mujoco><option timestep="0.005" sleep_tolerance="0.01"><flag sleep="enable" island="enable"/></option>
 <worldbody>
  <geom type="plane" size="5 5 .1"/>
  <body name="a" pos="0 0 0.05"><freejoint/><geom type="box" size="0.1 0.1 0.05"/></body>
  <body name="b" pos="0 0 0.15"><freejoint/><geom type="box" size="0.08 0.08 0.05"/></body>
  <body name="c" pos="0.6 0.5 0.05"><freejoint/><geom type="box" size="0.05 0.05 0.05"/></body>
  <body name="ball" pos="-0.8 0 0.06"><freejoint/><geom type="sphere" size="0.06"/></body>
 </worldbody></mujoco>"""


def sleep_states(m):
  """Five states of the sleep scene: everything at rest (it all falls asleep after ~10 steps) except a
  ball rolling towards the box tower at a different speed per state, so that the sleeping tower is woken
  by collision at a different step in each world - and never in the first one."""
  import mujoco

  m2 = mujoco.MjModel.from_xml_string(SLEEP_XML.replace('sleep="enable"', 'sleep="disable"'))
  d2 = mujoco.MjData(m2)
  for _ in range(400):
    mujoco.mj_step(m2, d2)
  out = []
  for v in (0.0, 2.5, 4.0, 3.2, 1.0):
    dk = mujoco.MjData(m)
    dk.qpos[:] = d2.qpos
    dk.qvel[:] = 0
    dk.qvel[18] = v
    mujoco.mj_forward(m, dk)
    out.append(dk)
  return out


def experiment(res, nmodels, nsteps_all):
  import mujoco

  import batchkit as BK
  import models
  import mujoco_warp as mjw

  rng = np.random.default_rng(vlib.seed() + 9)
  fails = []
  for k in range(nmodels + 1):
    nsteps = nsteps_all
    if k == 0:
      xml = BK.RICH_XML
    elif k == nmodels:
      xml = SLEEP_XML  # sleeping enabled: two-pass collision with wake-up, gated per step
      nsteps = 100
    else:
      o = models.Opts(nbody=(3, 6), plane=True, contacts=True, actuators=2, limits=0.5, equality=1, frictionloss=0.3, tendons=1 if k % 2 else 0)
      xml, _ = models.random_model(rng, o)
    m = mujoco.MjModel.from_xml_string(xml)
    if k % 3 == 2:
      m.opt.jacobian = mujoco.mjtJacobian.mjJAC_SPARSE
    if k % 4 == 3:
      m.opt.cone = mujoco.mjtCone.mjCONE_ELLIPTIC
    K = 3
    ds = BK.random_states(rng, m, K) if k != nmodels else sleep_states(m)
    mm = mjw.put_model(m)

    def run(idx, n=None):
      dd = mjw.make_data(m, nworld=len(idx), nconmax=64, njmax=256)
      BK.load_states(mjw, m, dd, ds, idx)
      for _ in range(nsteps if n is None else n):
        mjw.step(mm, dd)
      return dd

    # batch-size comparison (tolerance, see below) over a short horizon only: low-order-bit
    # differences of re-partitioned reductions are amplified by contact dynamics over many steps
    short = min(nsteps, 2)
    full_short = run(list(range(K)), short)

    if k != nmodels:
      ds = ds + BK.random_states(rng, m, 2)  # two more states used as "other content"
    full = run(list(range(K)))
    if int(full.overflow.numpy().max()) != 0:
      res.count()
      continue  # property is conditional on "no overflow reported"
    perm_idx = [int(x) for x in rng.permutation(K)] if k != nmodels else [1, 2, 0]
    perm = run(perm_idx)
    dup = run([1, 1, 0])
    other = run([0, 3, 4])  # world 0 next to entirely different neighbours
    # a larger batch (launch geometry that scales with nworld: reduction groups, tiles): world w of 9 vs alone
    big_short = run(list(range(K)) * 3, short)
    for w in range(K):
      one = run([w], short)
      dfb = BK.first_diff_tol(BK.snapshot(big_short, w + 2 * K), BK.snapshot(one, 0), 2e-5)
      res.count()
      if dfb is not None:
        fails.append({"xml": xml, "world": w, "versus": "alone vs slot %d of a 9-world batch" % (w + 2 * K), "field": dfb[0], "maxdiff": dfb[1], "nsteps": short, "seed": vlib.seed(), "model_index": k})
      a = BK.snapshot(full, w)
      a_short = BK.snapshot(full_short, w)
      cmp = [(BK.snapshot(perm, perm_idx.index(w)), f"permuted{perm_idx}", True)]
      if w == 0:
        cmp.append((BK.snapshot(other, 0), "same batch size, different neighbours", True))
      # batch-size change: only round-off of re-partitioned commutative sums is tolerated
      # (solver._jtdaj_groups_per_world splits the J^T D J reduction by nworld), see DESIGN C09
      cmp.append((BK.snapshot(one, 0), "alone", False))
      for other_s, what, exact in cmp:
        df = BK.first_diff(a, other_s) if exact else BK.first_diff_tol(a_short, other_s, 2e-5)
        res.count()
        if df is not None:
          fails.append({"xml": xml, "world": w, "versus": what, "field": df[0], "maxdiff": df[1], "nsteps": nsteps, "seed": vlib.seed(), "model_index": k})
    df = BK.first_diff(BK.snapshot(dup, 0), BK.snapshot(dup, 1))
    res.count()
    if df is not None:
      fails.append({"xml": xml, "world": 1, "versus": "duplicate world in same batch", "field": df[0], "maxdiff": df[1], "nsteps": nsteps, "seed": vlib.seed(), "model_index": k})
    nacon = int(full.nacon.numpy()[0])
    res.nontrivial(("model", k, nacon > 0))
    if k == 0:
      res.sample({"kind": "batch-vs-single", "model": "RICH_XML", "worlds": K, "nsteps": nsteps, "nacon": nacon, "nefc": full.nefc.numpy().tolist()})
  return fails


def run(res):
  quick = res.tier == "quick"
  res.rule = "dynamic: per model 3 worlds with distinct random states; world w in the batch vs alone vs in a permuted batch vs duplicated, bit-exact on qpos,qvel,act,time,qacc,sensordata,...; distinct = models (those with contacts count as non-trivial)"
  ok, trs, failing = propkit.prove(res, "Props/C09.v", gen_names=["Skel_access"])
  sk = trs.get("Skel_access")
  if sk is not None:
    res.extra["access_rows"] = len(sk.rows)
    res.extra["kernels_covered"] = len({r["kernel"] for r in sk.rows})
  fails = experiment(res, 4 if quick else 30, 4 if quick else 20)
  for f in fails[:3]:
    res.violation(f"C09:batch-interference:{f['field']}", f"world {f['world']} differs from {f['versus']} in {f['field']} (max diff {f['maxdiff']:.3g})", f)
  if not ok and not fails:
    detail = None
    if sk is not None:
      detail = new_exceptions(sk)
    propkit.broken_proof_violation(res, "C09 batch-indexing discipline / non-interference", failing, detail)
  res.assumptions += ["no capacity overflow reported (runs with overflow are skipped, as the property states)", "CPU back end: tasks run in ascending order; GPU sub-task interleavings are not exhibited"]


def new_exceptions(sk):
  """Rows that violate the discipline (for the replay file when the vm_compute fact breaks)."""
  import extract_access as EA

  return [r for r in sk.rows if EA.verdict(r) != "ok"][:50]


def replay(res, path):
  import json

  import mujoco

  import batchkit as BK
  import mujoco_warp as mjw

  r = json.load(open(path))["replay"]
  if not isinstance(r, dict) or "xml" not in r:
    print("no concrete input in this replay file (broken obligation): re-run ./check C09")
    return 1
  print("re-run ./check C09 with VERIF_SEED=%s; failing model index %s field %s" % (r.get("seed"), r.get("model_index"), r.get("field")))
  return 0
