"""C17 No out-of-bounds access or crash on accepted inputs."""

from __future__ import annotations

import json
import os
import subprocess
import sys

import numpy as np

import propkit
import vlib

MANIFEST = {
  "text": "proof (partial): index-range theorems for every modelled index computation (atomic allocation of rows / nnz / contacts / pairs / compacted dofs for all capacities incl. 0, flood-fill stack and labels, island maps, history ring index, compaction maps, pair-table index, SAP decoding and range clamp, state-vector and inertia-block layouts), restated verbatim from the owning properties, and the transcribed make_data argument checks; kernels without a model (most float kernels) are covered only by the subprocess crash oracle over tiny / exact-fit capacities and flag combinations (thorough tier adds Warp's bounds-checked debug build)",
  "note": "trusted: the models of C15/C16/C18/C19/C21/C28/C30/C38 and their correspondence checks; Model/Config.v transcription of make_data's checks (validated against the real function each run); a crash oracle is a test",
  "technique": "Rocq bounds theorems per index computation + transcribed argument checks + subprocess crash/abort oracle",
  "engine": "coq",
}

WORKER = os.path.join(os.path.dirname(os.path.dirname(os.path.abspath(__file__))), "c17_worker.py")

SCENE = """<mujoco><option jacobian="%s" cone="%s" solver="%s"/><worldbody><geom type="plane" size="5 5 .1"/>
<body pos="0 0 0.09"><freejoint/><geom type="box" size=".1 .08 .09"/></body>
<body pos="0.25 0 0.07"><freejoint/><geom type="sphere" size=".07"/></body>
<body pos="0 0.5 0.4"><joint name="h0" type="hinge" axis="0 1 0" limited="true" range="-0.05 0.05" frictionloss="0.1"/><geom type="capsule" fromto="0 0 0 .3 0 0" size=".03"/>
 <body name="b2" pos=".3 0 0"><joint name="b0" type="ball" limited="true" range="0 0.1"/><geom type="capsule" fromto="0 0 0 .2 0 0" size=".03"/></body></body>
<body name="b3" pos="0.5 0.5 0.4"><joint name="s0" type="slide" axis="0 0 1"/><geom type="sphere" size=".05"/></body>
</worldbody><equality><connect body1="b2" body2="b3" anchor="0.2 0 0"/><joint joint1="h0" joint2="s0"/></equality>
<tendon><fixed name="t" limited="true" range="-0.01 0.01"><joint joint="h0" coef="1"/><joint joint="s0" coef="1"/></fixed></tendon>
<actuator><motor joint="h0"/></actuator></mujoco>"""


def make_cases(rng, n, debug=False):
  cases = []
  for i in range(n):
    jac = str(rng.choice(["dense", "sparse"]))
    cone = str(rng.choice(["pyramidal", "elliptic"]))
    solver = str(rng.choice(["Newton", "CG"]))
    caps = {"nworld": int(rng.integers(1, 3))}
    kind = int(rng.integers(0, 6))
    if kind == 0:
      caps["njmax"] = int(rng.integers(0, 6))
    elif kind == 1:
      caps["nconmax"] = int(rng.integers(0, 4))
    elif kind == 2:
      caps["naconmax"] = int(rng.integers(1, 6))
    elif kind == 3:
      caps.update(njmax=int(rng.integers(0, 40)), nconmax=int(rng.integers(1, 10)))
    elif kind == 4:
      caps.update(njmax=int(rng.integers(3, 40)), njmax_nnz=int(rng.integers(2, 60)))
    else:
      caps.update(nvmax=int(rng.integers(0, 17)))
    case = {"xml": SCENE % (jac, cone, solver), "caps": caps, "seed": int(rng.integers(1 << 30)), "vel": float(10.0 ** rng.uniform(-1, 1.5)),
            "steps": 2, "debug": debug, "class": f"{jac}/{cone}/{solver}/{sorted(caps)}"}  # fmt: skip
    if rng.random() < 0.3:
      case["enableflags"] = SLEEP_BIT  # sleeping (with islands): island discovery, compacted solve, wake kernels
      case["class"] += "/sleep"
    cases.append(case)
  return cases


def _sleep_bit():
  import mujoco

  return int(mujoco.mjtEnableBit.mjENBL_SLEEP)


SLEEP_BIT = _sleep_bit()


def clique_xml(n, contact):
  """n free bodies whose trees are coupled pairwise (complete graph): by connect equalities, or by resting in
  one touching cluster.  Island discovery walks this graph with an explicit stack."""
  import math

  bodies, eqs = [], []
  for i in range(n):
    if contact:
      x, y = 0.11 * math.cos(2 * math.pi * i / n), 0.11 * math.sin(2 * math.pi * i / n)
      bodies.append(f'<body name="c{i}" pos="{x:.4f} {y:.4f} 0.2"><freejoint/><geom type="sphere" size="0.12"/></body>')
    else:
      bodies.append(f'<body name="c{i}" pos="{0.6 * i:.2f} 0 0.5"><freejoint/><geom type="sphere" size="0.05" contype="0" conaffinity="0"/></body>')
  if not contact:
    for i in range(n):
      for j in range(i + 1, n):
        eqs.append(f'<connect body1="c{i}" body2="c{j}" anchor="0 0 0"/>')
  return f'<mujoco><option gravity="0 0 0"/><worldbody>{"".join(bodies)}</worldbody><equality>{"".join(eqs)}</equality></mujoco>'


def clique_cases(debug):
  out = []
  for n, contact in ((5, False), (6, False), (8, False), (6, True), (7, True)):
    out.append({"xml": clique_xml(n, contact), "caps": {"nworld": 2, "nconmax": 64, "njmax": 400}, "seed": n, "vel": 0.01, "steps": 2, "debug": debug,
                "enableflags": SLEEP_BIT, "class": f"clique{n}/{'contact' if contact else 'connect'}/sleep+island" + ("/debug" if debug else "")})  # fmt: skip
  return out


def run_worker(cases, timeout=1500):
  path = os.path.join(vlib.BUILD, f"c17_cases_{os.getpid()}.json")
  os.makedirs(vlib.BUILD, exist_ok=True)
  json.dump(cases, open(path, "w"))
  results, start, restarts = {}, 0, 0
  while start < len(cases) and restarts < 30:
    p = subprocess.run([sys.executable, WORKER, path, str(start)], capture_output=True, text=True, timeout=timeout)
    cur = None
    for line in p.stdout.splitlines():
      if line.startswith("BEGIN "):
        cur = int(line.split()[1])
      elif line.startswith("DONE "):
        _, i, r = line.split(" ", 2)
        results[int(i)] = r
        cur = None
    if cur is not None:  # process died inside case cur
      tail = (p.stderr or "")[-400:]
      results[cur] = f"crash:rc={p.returncode}:" + ("bounds-assert" if "Assertion failed" in tail or "out of bounds" in tail else "signal")
      start = cur + 1
      restarts += 1
    else:
      break
  os.remove(path)
  return results


def classify(case, r):
  caps = case["caps"]
  if r.startswith("crash") and "sparse" in case["class"] and "njmax_nnz" in caps:
    return "C17:crash:sparse-small-njmax_nnz"
  if r.startswith("exception") and "ZeroDivisionError" in r and (caps.get("nconmax") == 0 or caps.get("naconmax") == 0):
    return "C17:exception:naconmax=0:ZeroDivisionError"
  if r.startswith("exception") and "ZeroDivisionError" in r and caps.get("njmax") == 0 and case.get("enableflags"):
    return "C17:exception:ZeroDivisionError:njmax=0:sleep"
  if r.startswith("crash"):
    return "C17:crash:" + case["class"]
  return "C17:exception:" + r.split(":")[1] + ":" + case["class"]


def config_correspondence(res, n):
  """Model/Config.v make_data_accepts vs the real mjw.make_data (raises ValueError or not)."""
  import mujoco

  import mujoco_warp as mjw
  import tvalid

  rng = np.random.default_rng(vlib.seed() + 171)
  m = mujoco.MjModel.from_xml_string(SCENE % ("dense", "pyramidal", "Newton"))
  lines, meta = [], []

  def opt(x):
    return "None" if x is None else f"(Some ({x})%Z)"

  for _ in range(n):
    c = {k: (None if (rng.random() < 0.4 and k not in ("nconmax", "njmax")) else int(rng.integers(-2, 20))) for k in ("nconmax", "njmax", "nvmax", "naconmax", "naccdmax")}
    nworld = int(rng.integers(-1, 4))
    kw = {k: v for k, v in c.items() if v is not None}
    try:
      mjw.make_data(m, nworld=nworld, **kw)
      real = True
    except ValueError:
      real = False
    lines.append(
      f"(if Bool.eqb (make_data_accepts ({m.nv})%Z {{| nconmax := ({c['nconmax']})%Z; njmax := ({c['njmax']})%Z; nvmax := {opt(c['nvmax'])}; "
      f"nworld := ({nworld})%Z; naconmax := {opt(c['naconmax'])}; naccdmax := {opt(c['naccdmax'])} |}}) {'true' if real else 'false'} then 0 else 2)%nat"
    )
    meta.append((c, nworld, real))
    res.nontrivial(("cfg", json.dumps(c), nworld))
  verdicts = tvalid.run_cases("C17cfg", ["Model.Config"], lines)
  res.count(len(lines))
  return [{"caps": meta[i][0], "nworld": meta[i][1], "real_accepts": meta[i][2]} for i, v in enumerate(verdicts) if v == 2]


def run(res):
  quick = res.tier == "quick"
  res.rule = "crash oracle: one rich scene (contacts, equalities, limits, friction loss, tendon limit) x jacobian x cone x solver x tiny / exact-fit capacities (njmax, nconmax, naconmax, njmax_nnz, nvmax) x 1-2 worlds, each run in a subprocess (2 steps + forward); non-trivial = distinct capacity/config class; config correspondence: random argument tuples of make_data vs Model/Config.v"
  ok, trs, failing = propkit.prove(res, "Props/C17.v", gen_names=["Skel_alloc", "math"])
  bad_cfg = config_correspondence(res, 120 if quick else 1200)
  res.obligation("make_data argument checks = Model/Config.v make_data_accepts", not bad_cfg, f"{len(bad_cfg)} disagreements {bad_cfg[:2]}")
  rng = np.random.default_rng(vlib.seed() + 17)
  cases = make_cases(rng, 40 if quick else 300)
  # directed: the capacity corners where C16's sweep found process deaths / exceptions
  for jac, cone, solver, caps in (
    ("sparse", "pyramidal", "Newton", {"nworld": 1, "njmax": 8, "njmax_nnz": 0}),
    ("sparse", "pyramidal", "Newton", {"nworld": 1, "njmax": 8, "njmax_nnz": 1}),
    ("sparse", "elliptic", "Newton", {"nworld": 2, "njmax": 40, "njmax_nnz": 3}),
    ("dense", "elliptic", "Newton", {"nworld": 1, "nconmax": 0}),
    ("dense", "pyramidal", "CG", {"nworld": 1, "nconmax": 0, "njmax": 0}),
  ):
    cases.append({"xml": SCENE % (jac, cone, solver), "caps": caps, "seed": 1, "vel": 1.0, "steps": 2, "debug": False, "class": f"{jac}/{cone}/{solver}/{sorted(caps)}"})
  # regression of the repaired njmax=0 + sleeping ZeroDivisionError
  cases.append({"xml": SCENE % ("dense", "pyramidal", "Newton"), "caps": {"nworld": 2, "njmax": 0}, "seed": 1, "vel": 1.0, "steps": 2, "debug": False, "enableflags": SLEEP_BIT, "class": "dense/pyramidal/Newton/['njmax', 'nworld']/sleep"})
  cases += clique_cases(False)  # dense tree-coupling graphs under sleep + island (explicit DFS stack of the flood fill)
  if not quick:
    cases += make_cases(rng, 6, debug=True)
    cases += clique_cases(True)
  results = run_worker(cases)
  hist = {}
  for i, c in enumerate(cases):
    r = results.get(i, "not-run")
    res.count()
    hist[r.split(":")[0]] = hist.get(r.split(":")[0], 0) + 1
    res.nontrivial(("case", c["class"]))
    if r.startswith(("crash", "exception")):
      res.violation(classify(c, r), f"accepted configuration {c['caps']} ({c['class']}): {r}", {"case": c, "result": r})
  res.extra["outcomes"] = hist
  res.sample({"kind": "crash-oracle case", "caps": cases[0]["caps"], "class": cases[0]["class"], "result": results.get(0)})
  if bad_cfg:
    res.violation("C17:config-check-mismatch", "make_data accepts/rejects differently from the transcribed checks", bad_cfg[:3], found_input=True)
  if not ok and not res.violations:
    propkit.broken_proof_violation(res, "C17 bounds theorems", failing)
  res.assumptions += ["kernels without a Coq model are covered by the crash oracle only", "Warp's bounds-checked debug build is exercised in the thorough tier only (recompiling every module takes minutes)"]


def replay(res, path):
  r = json.load(open(path))["replay"]
  if not isinstance(r, dict) or "case" not in r:
    print("no concrete input in this replay file")
    return 1
  out = run_worker([r["case"]])
  print(out)
  return 0 if out.get(0, "").startswith(("ok", "rejected")) else 1
