"""C36 Results do not depend on what else ran in the process."""

from __future__ import annotations

import json
import os
import subprocess
import sys
from concurrent.futures import ThreadPoolExecutor

import numpy as np

import propkit
import vlib

MANIFEST = {
  "text": "proof: cache-key soundness theorem for warp_util.cache_kernel (equal keys => same factory and same kernel-relevant arguments on the argument domain bool / non-negative int / enum / TileSet(size) / list, string and tuple hashes assumed injective) + vm_compute facts on the skeleton regenerated from /repo: every factory parameter is of such a kind, TileSet parameters are used through .size only, factory names are pairwise distinct, and the only module-level containers mutated at run time are the registry and the trace stack; refutation lemma for a process-wide growing dispatch list (the defect repaired in /repo). Sequences of configurations in one process vs each alone (subprocess-isolated, digest-exact) validate the whole",
  "note": "trusted: extract_cache.py (ast); CPython hash model (small ints, -1 -> -2; bool = 0/1); injectivity of str/tuple hashes is an explicit hypothesis; Warp's own on-disk kernel cache is outside the model",
  "technique": "Rocq proof over a model of the kernel registry + regenerated skeleton facts (S) + in-process sequence vs isolated-process differential experiment",
  "engine": "coq",
}

WORKER = os.path.join(os.path.dirname(os.path.dirname(os.path.abspath(__file__))), "c36_worker.py")


OFFDOMAIN = {}  # factory -> run-time arguments outside the domain of C36_cache_sound


def worker(seq):
  env = dict(os.environ)
  p = subprocess.run([sys.executable, WORKER, json.dumps(seq)], capture_output=True, text=True, timeout=900, env=env)
  for line in p.stdout.splitlines():
    if line.startswith("C36ARGS "):
      for k, v in json.loads(line[8:]).items():
        OFFDOMAIN.setdefault(k, []).extend(x for x in v if x not in OFFDOMAIN.get(k, []))
    if line.startswith("C36RESULT "):
      return json.loads(line[10:])
  raise RuntimeError("C36 worker failed: " + (p.stderr[-1500:] or p.stdout[-500:]))


def experiment(res, nseq, seqlen):
  sys.path.insert(0, os.path.dirname(WORKER))
  import c36_worker as W

  rng = np.random.default_rng(vlib.seed() + 36)
  cfgs = list(W.CONFIGS)
  with ThreadPoolExecutor(max_workers=8) as ex:
    alone = {r[0]["config"]: r[0] for r in ex.map(lambda c: worker([c]), cfgs)}
    seqs = [["box_prim", "box_ccd", "box_prim"]]  # the directed history of the repaired defect
    # key-neighbour histories: configurations that differ in ONE factory argument, both orders
    seqs += [["ell_sparse_condim4", "ell_sparse_condim6", "ell_sparse_condim3"], ["ell_sparse_condim6", "ell_sparse_condim3", "ell_sparse_condim4"]]
    for _ in range(nseq - 1):
      seqs.append([cfgs[i] for i in rng.choice(len(cfgs), seqlen, replace=True)])
    results = list(ex.map(worker, seqs))
  fails = []
  for seq, out in zip(seqs, results):
    for pos, r in enumerate(out):
      res.count()
      if pos > 0:
        res.nontrivial((tuple(seq[:pos]), r["config"]))
      if r["digest"] != alone[r["config"]]["digest"]:
        fails.append({"sequence": seq, "position": pos, "config": r["config"], "in_sequence": r, "alone": alone[r["config"]]})
  res.sample({"kind": "sequence", "sequence": seqs[-1], "digests": [r["digest"][:10] for r in results[-1]]})
  return fails


def run(res):
  quick = res.tier == "quick"
  res.rule = "9 configurations (box-box native/primitive CCD, cone x jacobian x solver, small capacities, 2 worlds, SAP) each run alone in a fresh process, then random sequences of them in ONE process; a case = one configuration at one position of a sequence, non-trivial when something ran before it; digests (qpos,qvel,qacc,nefc,overflow,contact multiset after 3 steps) must be identical"
  ok, trs, failing = propkit.prove(res, "Props/C36.v", gen_names=["Skel_cache"])
  sk = trs.get("Skel_cache")
  if sk is not None:
    res.extra["factories"] = len(sk.factories)
    res.extra["mutated_globals"] = [list(p) for p in sk.pairs]
  fails = experiment(res, 4 if quick else 24, 5 if quick else 8)
  for f in fails[:3]:
    prev = f["sequence"][: f["position"]]
    key = "C36:process-history:primitive-dispatch-registry" if f["config"] == "box_ccd" and "box_prim" in prev else f"C36:process-history:{f['config']}"
    res.violation(key, f"configuration {f['config']} gives a different result after {prev} ran in the same process (nacon {f['in_sequence']['nacon']} vs {f['alone']['nacon']} alone)", f)
  res.obligation(
    "every run-time argument of a @cache_kernel factory lies in the domain of C36_cache_sound (bool / int / enum / str / TileSet / lists of those)",
    not OFFDOMAIN,
    json.dumps(OFFDOMAIN)[:600],
  )
  if OFFDOMAIN and not fails:
    propkit.broken_proof_violation(res, "C36_cache_sound argument-domain hypothesis (an argument is hashed by its .size only)", ["run-time factory arguments"], OFFDOMAIN)
  if not ok and not fails:
    detail = {"mutated_globals": [list(p) for p in sk.pairs], "sites": [list(x) for x in sk.detail]} if sk is not None else None
    propkit.broken_proof_violation(res, "C36 registry / global-state obligations", failing, detail)
  res.assumptions += ["str and tuple hashes injective (hypotheses of C36_cache_sound)", "int / enum factory arguments are non-negative (sizes, enum values)", "wp.Function objects passed in lists are hashed by identity (injective in one process)", "Warp's on-disk kernel cache and LLVM are outside the model"]


def replay(res, path):
  r = json.load(open(path))["replay"]
  if not isinstance(r, dict) or "sequence" not in r:
    print("no concrete input in this replay file; re-run ./check C36")
    return 1
  out = worker(r["sequence"])
  alone = worker([r["config"]])
  print("in sequence:", out[r["position"]])
  print("alone      :", alone[0])
  return 0 if out[r["position"]]["digest"] == alone[0]["digest"] else 1
