"""C15 State get/set is MuJoCo-compatible and lossless.

Proof: Props/C15.v (theorems about the hand-written executable model Model/StateCodec.v of
support.py get_state / set_state).  Tie to /repo, on every run:
  * correspondence: the model is evaluated inside Coq (vm_compute) on the same inputs as the real
    mjw.get_state / mjw.set_state (random models, signatures, active masks, nworld 1..3, state rows
    with padding) and compared exactly on float32 bit patterns;
  * oracle: the same real runs are compared with mujoco.mj_getState / mj_setState / mj_stateSize
    world by world, inactive worlds must be untouched, get must not modify Data, set must not
    modify the state array, out-of-range signatures must raise in both functions;
  * sequences: masked/unmasked calls in both orders (unmasked first, masked first), alternating signatures and
    nworld, each order in a fresh interpreter, same oracle (unselected worlds bit-identical);
  * S: ast skeleton of how get_state/set_state build and launch their wp.static-specialised kernels."""

from __future__ import annotations

import json

import numpy as np

import propkit
import vlib

MANIFEST = {
  "text": "proof: for the executable model of the _get_state/_set_state kernels and their wrappers (same NSTATE bit loop, same index loops, in-place writes, active mask, range test), for arbitrary component sizes and every integer signature that reaches the kernel: get writes exactly the selected components in ascending bit order (state_size values) and leaves the rest of the row; set-then-get returns the input when the eq_active slice is 0/1; get-then-set is the identity; arrays with a clear bit are unchanged; inactive worlds are neither read nor written; every signature outside [0, 2^NSTATE) raises and every signature inside is accepted; plus an in-Coq sweep of all 2^14 signatures on one concrete model. Tested/skeleton only: that the kernels are rebuilt on every call (ast skeleton: the wp.static(active is not None) specialisation cannot go stale) with masked/unmasked call sequences in both orders in fresh processes; that the model is the code (correspondence on float32 bit patterns) and agreement with mujoco.mj_getState/mj_setState/mj_stateSize",
  "note": "trusted: Coq kernel; hand-written model Model/StateCodec.v (tied to the real functions by the per-run correspondence, exact on bit patterns); flat-list view of Warp vec/quat/spatial_vector arrays; mujoco binary as oracle; out-of-bounds behaviour (state row narrower than the state size, short active array) is excluded by hypothesis and belongs to C17",
  "technique": "Rocq proof over a hand-written executable model (induction over the bit list + loop invariants), exhaustive vm_compute sweep, per-run model/implementation correspondence and differential oracle against MuJoCo",
  "engine": "coq",
}

PROPS = "Props/C15.v"
NSTATE = 14
# data_flat order of Model/StateCodec.v = bit order
FIELDS = ["time", "qpos", "qvel", "act", "history", "qacc_warmstart", "ctrl", "qfrc_applied", "xfrc_applied", "eq_active", "mocap_pos", "mocap_quat", "userdata"]
BITNAMES = FIELDS + ["plugin"]

FULL_XML = """<mujoco><size nuserdata="3"/><worldbody>
<body name="m" mocap="true" pos="0 0 1"><geom size=".1"/></body>
<body name="m2" mocap="true" pos="1 0 1"><geom size=".1"/></body>
<body name="a" pos="0 0 1"><freejoint/><geom size=".1"/></body>
<body name="b" pos="0 1 1"><joint name="h" type="hinge"/><geom size=".1"/><body name="c" pos="0 0 .3"><joint name="bl" type="ball"/><geom size=".05"/></body></body>
</worldbody>
<actuator><general name="a0" joint="h" dyntype="integrator" delay="0.01" nsample="3"/><motor name="a1" joint="h"/><general name="a2" joint="h" dyntype="filter" dynprm="0.1 0 0"/></actuator>
<equality><connect body1="a" body2="b" anchor="0 0 0"/><weld body1="m" body2="a"/></equality>
</mujoco>"""

MIN_XML = """<mujoco><worldbody><body name="a" pos="0 0 1"><joint name="s" type="slide"/><geom size=".1"/></body></worldbody></mujoco>"""

SPECIAL_BITS = [0x00000000, 0x80000000, 0x3F800000, 0xBF800000, 0x00000001, 0x7F7FFFFF, 0x7F800000, 0xFF800000, 0x7FC00000, 0x3F000000, 0x40000000]
EQ_VALUES = [0x00000000, 0x3F800000, 0x80000000, 0x3F000000, 0x40000000, 0xBF800000, 0x00000001, 0x7FC00000]  # 0, 1, -0, .5, 2, -1, denormal, nan


# ---------------------------------------------------------------------------------------------
def comp_sizes(m):
  return [1, m.nq, m.nv, m.na, m.nhistory, m.nv, m.nu, m.nv, 6 * m.nbody, m.neq, 3 * m.nmocap, 4 * m.nmocap, m.nuserdata, 0]


def layout(m, sig):
  """[(bit, offset, size)] of the selected components and the total size (python-side spec used only
  to generate inputs and to name what differs)."""
  off, out = 0, []
  cs = comp_sizes(m)
  for i in range(NSTATE):
    if (sig >> i) & 1:
      out.append((i, off, cs[i]))
      off += cs[i]
  return out, off


def rand_bits(rng, n, finite=False):
  x = rng.normal(0, 1, n).astype(np.float32) * np.float32(10.0) ** rng.integers(-3, 4, n).astype(np.float32)
  b = x.view(np.uint32).copy()
  k = rng.random(n) < 0.12
  pool = np.array(SPECIAL_BITS[:6] if finite else SPECIAL_BITS, dtype=np.uint32)
  b[k] = pool[rng.integers(0, len(pool), int(k.sum()))]
  return b


def build_models(rng, n_random):
  import mujoco

  import models

  xmls = [FULL_XML, MIN_XML]
  tries = 0
  while len(xmls) < 2 + n_random and tries < 40:
    tries += 1
    o = models.Opts(
      nbody=(2, 5), mocap=0.6, actuators=int(rng.integers(0, 4)), act_kinds=("general", "motor", "position"), equality=int(rng.integers(0, 3)), sites=0.2
    )
    xml, _ = models.random_model(rng, o)
    nud = int(rng.integers(0, 5))
    if nud:
      xml = xml.replace("<mujoco>", f'<mujoco><size nuserdata="{nud}"/>', 1)
    if rng.random() < 0.6:
      xml2 = xml.replace('name="a0"', f'name="a0" delay="0.01" nsample="{int(rng.integers(1, 4))}"', 1)
      try:
        mujoco.MjModel.from_xml_string(xml2)
        xml = xml2
      except Exception:
        pass
    try:
      mujoco.MjModel.from_xml_string(xml)
    except Exception:
      continue
    xmls.append(xml)
  return xmls


class Setup:
  """One (model, nworld): real Model/Data on the device plus the base content of every state array."""

  def __init__(self, rng, idx, xml, nworld):
    import mujoco

    import mujoco_warp as mjw

    self.idx, self.xml, self.nworld = idx, xml, nworld
    self.m = mujoco.MjModel.from_xml_string(xml)
    self.d = mujoco.MjData(self.m)
    self.mm = mjw.put_model(self.m)
    self.dd = mjw.put_data(self.m, self.d, nworld=nworld)
    self.base = {}
    self.views = {f: getattr(self.dd, f).numpy() for f in FIELDS}  # CPU: zero-copy views of the device arrays
    for f in FIELDS:
      v = self.views[f]
      if f == "eq_active":
        self.base[f] = rng.random(v.shape) < 0.5
      else:
        self.base[f] = rand_bits(rng, v.size, finite=True).view(np.float32).reshape(v.shape)
    self.restore()
    back = self.read()
    if any(not np.array_equal(back[f], self.base[f]) for f in FIELDS if f == "eq_active") or any(
      not np.array_equal(bits_of(back[f]), bits_of(self.base[f])) for f in FIELDS if f != "eq_active"
    ):
      raise RuntimeError("C15 harness: writing Data arrays through numpy views did not take effect")
    self.name = f"S{idx}"

  def shapes_ok(self):
    m, n = self.m, self.nworld
    exp = {
      "time": (n,), "qpos": (n, m.nq), "qvel": (n, m.nv), "act": (n, m.na), "history": (n, m.nhistory), "qacc_warmstart": (n, m.nv),
      "ctrl": (n, m.nu), "qfrc_applied": (n, m.nv), "xfrc_applied": (n, m.nbody, 6), "eq_active": (n, m.neq), "mocap_pos": (n, m.nmocap, 3),
      "mocap_quat": (n, m.nmocap, 4), "userdata": (n, m.nuserdata),
    }  # fmt: skip
    bad = [f for f in FIELDS if tuple(getattr(self.dd, f).numpy().shape) != exp[f]]
    mm = self.mm
    if (mm.nq, mm.nv, mm.nu, mm.na, mm.nbody, mm.neq, mm.nmocap, mm.nuserdata, mm.nhistory) != (
      m.nq, m.nv, m.nu, m.na, m.nbody, m.neq, m.nmocap, m.nuserdata, m.nhistory):  # fmt: skip
      bad.append("model-sizes")
    return bad

  def restore(self):
    for f in FIELDS:
      self.views[f][...] = self.base[f]

  def read(self):
    return {f: getattr(self.dd, f).numpy().copy() for f in FIELDS}

  @staticmethod
  def flat_world(fields, w):
    """data_flat of world w as uint32 bit patterns (eq_active as float(b))."""
    out = []
    for f in FIELDS:
      a = fields[f][w]
      if f == "eq_active":
        out.extend((0x3F800000 if bool(x) else 0) for x in np.asarray(a).reshape(-1))
      else:
        out.extend(np.ascontiguousarray(a, dtype=np.float32).reshape(-1).view(np.uint32).tolist())
    return out

  def coq_defs(self):
    m = self.m
    s = f"Definition {self.name}_sz : Sizes := (mkSizes {m.nq} {m.nv} {m.nu} {m.na} {m.nbody} {m.neq} {m.nmocap} {m.nuserdata} {m.nhistory})%Z.\n"
    for w in range(self.nworld):
      parts = []
      for f in FIELDS:
        a = self.base[f][w]
        if f == "time":
          parts.append(str(int(np.float32(a).view(np.uint32))))
        elif f == "eq_active":
          parts.append("[" + "; ".join("true" if bool(x) else "false" for x in np.asarray(a).reshape(-1)) + "]")
        else:
          parts.append("[" + "; ".join(str(int(x)) for x in np.ascontiguousarray(a, dtype=np.float32).reshape(-1).view(np.uint32)) + "]")
      s += f"Definition {self.name}_d{w} : Data Z := (mkData " + " ".join(parts) + ")%Z.\n"
    s += f"Definition {self.name}_ds : list (Data Z) := [" + "; ".join(f"{self.name}_d{w}" for w in range(self.nworld)) + "].\n"
    return s

  def load_mjdata(self, w):
    """MuJoCo MjData holding world w's base content."""
    d, b = self.d, self.base
    d.time = float(b["time"][w])
    for f in FIELDS[1:]:
      arr = getattr(d, f)
      if arr.size:
        arr[...] = np.asarray(b[f][w]).reshape(arr.shape)
    return d


def coq_rows(rows):
  return "[" + "; ".join("[" + "; ".join(str(int(x)) for x in r) + "]" for r in rows) + "]%Z"


def coq_active(active):
  if active is None:
    return "None"
  return "(Some [" + "; ".join("true" if a else "false" for a in active) + "])"


def coq_sig(sig):
  return f"({int(sig)})%Z"


def call_real(fn, su, rows_bits, sig, active):
  """Run mjw.get_state / set_state. Returns (raised, state bits after, Data fields after)."""
  import warp as wp

  su.restore()
  st = wp.array(np.asarray(rows_bits, dtype=np.uint32).view(np.float32).reshape(su.nworld, -1), dtype=float)
  act = None if active is None else wp.array(np.asarray(active, dtype=bool), dtype=bool)
  raised = None
  try:
    fn(su.mm, su.dd, st, sig, act)
  except Exception as e:  # noqa
    raised = f"{type(e).__name__}: {e}"
  return raised, st.numpy().view(np.uint32).reshape(su.nworld, -1).copy(), su.read()


def bits_of(a):
  return np.ascontiguousarray(a, dtype=np.float32).reshape(-1).view(np.uint32)


def diff_fields(a, b, w):
  return [f for f in FIELDS if not np.array_equal(bits_of(a[f][w]) if f != "eq_active" else np.asarray(a[f][w]), bits_of(b[f][w]) if f != "eq_active" else np.asarray(b[f][w]))]


# ---------------------------------------------------------------------------------------------
def mujoco_check(su, kind, sig, active, rows0, raised, st_after, data_after):
  """Differential oracle for one real call. Returns list of (key, what, extra)."""
  import mujoco

  fails = []
  m = su.m
  isig = int(sig)
  try:
    size = mujoco.mj_stateSize(m, isig)
    mj_raises = False
  except Exception:
    size, mj_raises = None, True
  if mj_raises:
    if raised is None:
      site = "negative-signature-accepted" if isig < 0 else "not-rejected"
      how = "a negative signature is not rejected (mujoco: 'invalid state signature < 0') and is treated as its low 14 bits" if isig < 0 else "not rejected"
      fails.append((f"C15:sig_range:{site}", f"mujoco rejects signature {isig} but mjw.get_state/set_state accept it ({how}); seen in mjw.{kind}", {}))
    else:
      if not np.array_equal(st_after, rows0):
        fails.append((f"C15:{kind}:raise-modified-state", "state array changed although the call raised", {}))
      if any(diff_fields(data_after, su.base, w) for w in range(su.nworld)):
        fails.append((f"C15:{kind}:raise-modified-data", "Data changed although the call raised", {}))
    return fails
  if raised is not None:
    fails.append((f"C15:{kind}:valid-signature-rejected", f"mjw.{kind} raised for valid signature {isig}: {raised}", {}))
    return fails
  lay, psize = layout(m, isig)
  if psize != size:
    fails.append(("C15:state_size:python-layout", f"check-internal layout size {psize} != mj_stateSize {size}", {}))
  for w in range(su.nworld):
    act = True if active is None else bool(active[w])
    d = su.load_mjdata(w)
    if kind == "get_state":
      changed = diff_fields(data_after, su.base, w)
      if changed:
        fails.append(("C15:get_state:modifies-data", f"get_state changed Data fields {changed} of world {w}", {"world": w}))
      if not act:
        if not np.array_equal(st_after[w], rows0[w]):
          fails.append(("C15:get_state:mask:inactive-world-written", f"state row of inactive world {w} changed", {"world": w}))
        continue
      ref = np.zeros(size)
      mujoco.mj_getState(m, d, ref, isig)
      refb = ref.astype(np.float32).view(np.uint32)
      if not np.array_equal(st_after[w, :size], refb):
        j = int(np.nonzero(st_after[w, :size] != refb)[0][0])
        comp = next((BITNAMES[i] for i, o, s in lay if o <= j < o + s), "?")
        fails.append((f"C15:get_state:layout-vs-mujoco:{comp}", f"world {w} entry {j} ({comp}) differs from mj_getState", {"world": w, "index": j, "mjw": int(st_after[w, j]), "mujoco": int(refb[j])}))
      if not np.array_equal(st_after[w, size:], np.asarray(rows0[w][size:], dtype=np.uint32)):
        fails.append(("C15:get_state:writes-past-state-size", f"world {w}: entries beyond mj_stateSize={size} were modified", {"world": w}))
    else:
      if not np.array_equal(st_after[w], rows0[w]):
        fails.append(("C15:set_state:modifies-state", f"set_state changed the state array row {w}", {"world": w}))
      if not act:
        changed = diff_fields(data_after, su.base, w)
        if changed:
          fails.append(("C15:set_state:mask:inactive-world-written", f"Data fields {changed} of inactive world {w} changed", {"world": w}))
        continue
      v = np.asarray(rows0[w][:size], dtype=np.uint32).view(np.float32).astype(np.float64)
      eq_nan = False
      for i, o, s in lay:
        if i == 9 and np.isnan(v[o : o + s]).any():
          eq_nan = True  # double NaN -> mjtByte is not defined in C; do not compare eq_active then
      mujoco.mj_setState(m, d, v, isig)
      for f in FIELDS:
        if f == "eq_active" and eq_nan:
          continue
        ref = np.asarray(d.time if f == "time" else getattr(d, f))
        got = data_after[f][w]
        if f == "eq_active":
          ok = np.array_equal(ref.astype(bool).reshape(-1), np.asarray(got).reshape(-1))
        else:
          ok = np.array_equal(ref.astype(np.float32).reshape(-1).view(np.uint32), bits_of(got))
        if not ok:
          fails.append((f"C15:set_state:fields-vs-mujoco:{f}", f"world {w}: Data.{f} after set_state differs from mj_setState", {"world": w, "field": f}))
  return fails


# ---------------------------------------------------------------------------------------------
# ---- S: how the two public functions build and launch their kernels (ast skeleton) -------------------------
def kernel_skeleton():
  """The kernels are specialised at BUILD time by `wp.static(active is not None)`.  That is only sound if the
  kernel object is rebuilt by every call (decorator `wp.kernel(module="unique", ...)` applied directly to the
  nested def, which is then the object handed to wp.launch).  Anything else -- another decorator, a memo
  table, a kernel fetched from outside the function -- may reuse a stale specialisation and fails this
  obligation (fail closed; a cache keyed by every wp.static dependency would have to be modelled first).
  Returns (problems, facts)."""
  import ast
  import os

  path = os.path.join(vlib.REPO, "mujoco_warp", "_src", "support.py")
  tree = ast.parse(open(path).read())
  problems, facts = [], {}
  for fname, kname in (("get_state", "_get_state"), ("set_state", "_set_state")):
    fn = next((n for n in tree.body if isinstance(n, ast.FunctionDef) and n.name == fname), None)
    if fn is None:
      problems.append(f"{fname}: not found")
      continue
    params = {a.arg for a in fn.args.args}
    kdefs = [n for n in fn.body if isinstance(n, ast.FunctionDef)]
    if [k.name for k in kdefs] != [kname]:
      problems.append(f"{fname}: nested kernel defs {[k.name for k in kdefs]} (expected exactly [{kname}] directly in the body)")
      continue
    k = kdefs[0]
    decs = [ast.unparse(d) for d in k.decorator_list]
    ok_dec = False
    if len(k.decorator_list) == 1 and isinstance(k.decorator_list[0], ast.Call):
      c = k.decorator_list[0]
      if ast.unparse(c.func) == "wp.kernel" and not c.args and any(kw.arg == "module" and isinstance(kw.value, ast.Constant) and kw.value.value == "unique" for kw in c.keywords):
        ok_dec = True
    if not ok_dec:
      problems.append(f"{fname}: kernel {kname} is built by {decs}, not by wp.kernel(module=\"unique\", ...) on every call")
    statics = [ast.unparse(n.args[0]) for n in ast.walk(k) if isinstance(n, ast.Call) and ast.unparse(n.func) == "wp.static" and n.args]
    deps = sorted({x.id for n in ast.walk(k) if isinstance(n, ast.Call) and ast.unparse(n.func) == "wp.static" for a in n.args for x in ast.walk(a) if isinstance(x, ast.Name)} - {"State"})
    if not set(deps) <= params:
      problems.append(f"{fname}: wp.static depends on {deps}, not all parameters of {fname}")
    # the kernel name must not be rebound, and must be what wp.launch receives
    rebinds = [n for n in ast.walk(fn) if isinstance(n, (ast.Assign, ast.AugAssign, ast.AnnAssign)) and any(isinstance(t, ast.Name) and t.id == kname for t in ast.walk(n.targets[0] if isinstance(n, ast.Assign) else n.target))]
    if rebinds:
      problems.append(f"{fname}: {kname} is rebound after its definition")
    launches = [n for n in ast.walk(fn) if isinstance(n, ast.Call) and ast.unparse(n.func) == "wp.launch"]
    if len(launches) != 1 or not launches[0].args or ast.unparse(launches[0].args[0]) != kname:
      problems.append(f"{fname}: wp.launch does not launch the freshly built {kname} ({[ast.unparse(l.args[0]) if l.args else '?' for l in launches]})")
    if any(isinstance(n, (ast.Global, ast.Nonlocal)) for n in ast.walk(fn)):
      problems.append(f"{fname}: uses global/nonlocal state")
    facts[fname] = {"decorator": decs, "static": statics, "static_deps": deps}
  return problems, facts


# ---- in-process call SEQUENCES, each order in a fresh interpreter ------------------------------------------
SEQ_ORDERS = ("unmasked-first", "masked-first")


def mask_of(kind, nworld, rng):
  if kind == "none":
    return None
  if kind == "nobody":
    return [False] * nworld
  if kind == "all":
    return [True] * nworld
  if kind == "first":
    return [True] + [False] * (nworld - 1)
  m = [bool(x) for x in rng.random(nworld) < 0.5]
  if all(m):
    m[int(rng.integers(nworld))] = False
  return m


def sequence_plan(order, tier):
  """[(setup index, kind, sig, mask kind)]: the first call of each function is unmasked or masked according to
  `order`; afterwards masked and unmasked calls, signatures and nworld alternate."""
  rng = np.random.default_rng(vlib.seed() + 1500 + SEQ_ORDERS.index(order))
  first = "none" if order == "unmasked-first" else "some"
  plan = [(0, "set_state", (1 << NSTATE) - 1, first), (0, "get_state", (1 << NSTATE) - 1, first)]
  n = 60 if tier == "quick" else 400
  kinds = ["some", "none", "first", "nobody", "some", "all"]
  for j in range(n):
    su = int(rng.integers(0, 4))
    sig = int(rng.integers(0, 1 << NSTATE)) if j % 3 else [(1 << NSTATE) - 1, 2 | 4, 1 | 512 | 256][(j // 3) % 3]
    plan.append((su, "set_state" if j % 2 == 0 else "get_state", sig, kinds[(j // 2) % len(kinds)]))
  return plan


def sequence_child(order, tier):
  """Runs in a fresh interpreter: prints one JSON line with the failures of the sequence."""
  import mujoco_warp as mjw

  rng = np.random.default_rng(vlib.seed() + 1600 + SEQ_ORDERS.index(order))
  specs = [(FULL_XML, 2), (FULL_XML, 3), (MIN_XML, 2), (FULL_XML, 1)]
  setups = [Setup(rng, i, x, nw) for i, (x, nw) in enumerate(specs)]
  fails, history = [], []
  for idx, kind, sig, mk in sequence_plan(order, tier):
    su = setups[idx]
    active = mask_of(mk, su.nworld, rng)
    lay, size = layout(su.m, sig)
    rows0 = [rand_bits(rng, size + 1, finite=True) for _ in range(su.nworld)]
    if kind == "set_state":
      for i, o, s_ in lay:
        if i == 9:
          for r in rows0:
            r[o : o + s_] = np.array(EQ_VALUES[:6], dtype=np.uint32)[rng.integers(0, 6, s_)]
    fn = mjw.get_state if kind == "get_state" else mjw.set_state
    raised, st_after, data_after = call_real(fn, su, rows0, sig, active)
    rows0a = np.asarray(rows0, dtype=np.uint32).reshape(su.nworld, -1)
    for key, what, extra in mujoco_check(su, kind, sig, active, rows0a, raised, st_after, data_after):
      if len(fails) < 6:
        prelude = [h for h in history if h["kind"] == kind][:1]  # the call that built/cached this function's kernel
        fails.append({"key": key, "what": f"{what} [call #{len(history)} of the '{order}' sequence in a fresh process; first {kind} call of the process had mask={prelude[0]['mask'] if prelude else mk}]",
                      "data": dict(extra, xml=su.xml, nworld=su.nworld, sig=int(sig), active=active, kind=kind, order=order, prelude=prelude,
                                   rows=[[int(x) for x in r] for r in rows0a], base={f: (su.base[f].astype(np.float64).tolist() if f != "eq_active" else su.base[f].tolist()) for f in FIELDS})})  # fmt: skip
    history.append({"kind": kind, "sig": int(sig), "mask": mk, "nworld": su.nworld})
  print("C15SEQ " + json.dumps({"order": order, "calls": len(history), "fails": fails}), flush=True)


def start_sequences(tier):
  import os
  import subprocess

  env = dict(os.environ)
  procs = {}
  for order in SEQ_ORDERS:
    code = f"import warp as wp; wp.config.quiet=True; import props.C15 as c; c.sequence_child({order!r}, {tier!r})"
    procs[order] = subprocess.Popen([vlib.PY, "-c", code], env=env, stdout=subprocess.PIPE, stderr=subprocess.PIPE, text=True)
  return procs


def collect_sequences(procs, timeout):
  out = {}
  for order, p in procs.items():
    try:
      so, se = p.communicate(timeout=timeout)
    except Exception as e:  # noqa
      p.kill()
      out[order] = {"error": f"{type(e).__name__}: {e}"}
      continue
    line = next((l for l in so.splitlines() if l.startswith("C15SEQ ")), None)
    out[order] = json.loads(line[7:]) if line else {"error": "no result line; rc=%s; %s" % (p.returncode, se[-800:])}
  return out


def signature_list(rng, tier):
  import mujoco_warp as mjw

  S = mjw.State
  named = [S.PHYSICS, S.FULLPHYSICS, S.USER, S.INTEGRATION]  # IntEnum objects: exercises int(sig)
  if tier == "quick":
    sigs = [1 << i for i in range(NSTATE)] + [0, (1 << NSTATE) - 1] + named
    sigs += [int(x) for x in rng.integers(0, 1 << NSTATE, 300)]
  else:
    sigs = named + [int(x) for x in rng.permutation(1 << NSTATE)]  # random order: a run cut by the time budget is still a uniform sample
  return sigs


def run(res):
  import warp as wp  # noqa

  import mujoco_warp as mjw
  import tvalid

  quick = res.tier == "quick"
  res.rule = "one evaluation = one real mjw.get_state or mjw.set_state call compared (a) exactly on float32 bit patterns with the Coq model evaluated by vm_compute and (b) world by world with mujoco.mj_getState/mj_setState/mj_stateSize; distinct = (function, signature, mask kind, model, nworld)"
  import time

  t0 = time.time()
  seq_procs = start_sequences(res.tier)  # fresh interpreters, run while the proofs are checked
  ok, trs, failing = propkit.prove(res, PROPS)
  sk_problems, sk_facts = kernel_skeleton()
  res.obligation(
    "S: get_state/set_state rebuild their wp.static-specialised kernel on every call (wp.kernel(module=\"unique\") applied to the nested def that wp.launch receives; no kernel cache)",
    not sk_problems, "; ".join(sk_problems) if sk_problems else json.dumps(sk_facts),
  )  # fmt: skip
  vlib.log(f"[C15] prove (incl. waiting for the build lock): {time.time() - t0:.1f} s")
  t0 = time.time()
  rng = np.random.default_rng(vlib.seed() + 15)

  # ---- State enum vs model constants
  S = mjw.State
  enum_vals = [int(S.NSTATE)] + [int(getattr(S, n)) for n in ("TIME", "QPOS", "QVEL", "ACT", "HISTORY", "WARMSTART", "CTRL", "QFRC_APPLIED", "XFRC_APPLIED", "EQ_ACTIVE", "MOCAP_POS", "MOCAP_QUAT", "USERDATA")]
  lines = ["tvz [NSTATE; ST_TIME; ST_QPOS; ST_QVEL; ST_ACT; ST_HISTORY; ST_WARMSTART; ST_CTRL; ST_QFRC_APPLIED; ST_XFRC_APPLIED; ST_EQ_ACTIVE; ST_MOCAP_POS; ST_MOCAP_QUAT; ST_USERDATA]%Z " + vlib.zlist(enum_vals)]
  meta = [("enum", None)]

  # ---- setups
  xmls = build_models(rng, 4 if quick else 10)
  setups = []
  for k, xml in enumerate(xmls):
    for nworld in ((1, 2, 3) if k == 0 else (int(rng.integers(1, 4)),)):
      setups.append(Setup(rng, len(setups), xml, nworld))
  wf_bad = {su.name: su.shapes_ok() for su in setups if su.shapes_ok()}
  res.obligation("wf hypothesis: Data array shapes equal the Model sizes passed to the kernels (all generated models)", not wf_bad, json.dumps(wf_bad))
  covered = set()
  for su in setups:
    for i, c in enumerate(comp_sizes(su.m)):
      if c > 0:
        covered.add(i)
  res.obligation("generated models have every state component non-empty at least once", covered >= set(range(13)), f"non-empty bits: {sorted(covered)}")
  extra_defs = "".join(su.coq_defs() for su in setups)

  sigs = signature_list(rng, res.tier)
  oracle_fails = []
  records = []

  def one_case(su, kind, sig, active, rows0, to_coq=True):
    fn = mjw.get_state if kind == "get_state" else mjw.set_state
    raised, st_after, data_after = call_real(fn, su, rows0, sig, active)
    rows0a = np.asarray(rows0, dtype=np.uint32).reshape(su.nworld, -1)
    for key, what, extra in mujoco_check(su, kind, sig, active, rows0a, raised, st_after, data_after):
      oracle_fails.append((key, what, dict(extra, xml=su.xml, nworld=su.nworld, sig=int(sig), active=None if active is None else [bool(a) for a in active], kind=kind, rows=[[int(x) for x in r] for r in rows0a], base={f: (su.base[f].astype(np.float64).tolist() if f != "eq_active" else su.base[f].tolist()) for f in FIELDS})))
    if kind == "get_state":
      exp = [-1] if raised is not None else [int(x) for x in st_after.reshape(-1)]
      term = f"flat_rows (get_stateZ {su.name}_sz {coq_sig(sig)} {coq_active(active)} {su.name}_ds {coq_rows(rows0a)})"
    else:
      exp = [-1] if raised is not None else [x for w in range(su.nworld) for x in Setup.flat_world(data_after, w)]
      term = f"flat_datas (set_stateZ {su.name}_sz {coq_sig(sig)} {coq_active(active)} {coq_rows(rows0a)} {su.name}_ds)"
    if to_coq:
      lines.append(f"tvz ({term}) {vlib.zlist(exp)}")
    mk = "none" if active is None else ("all" if all(active) else ("nobody" if not any(active) else "some"))
    if to_coq:
      meta.append((kind, {"setup": su.idx, "nworld": su.nworld, "sig": int(sig), "active": None if active is None else [bool(a) for a in active], "raised": raised}))
    res.count()
    res.nontrivial((kind, int(sig), mk, su.idx))
    return raised

  def rand_active(su):
    r = rng.random()
    if r < 0.3:
      return None
    if r < 0.4:
      return [False] * su.nworld
    if r < 0.5:
      return [True] * su.nworld
    return [bool(x) for x in rng.random(su.nworld) < 0.6]

  # thorough tier: every signature goes through the real functions and the MuJoCo oracle (time budget below),
  # the first COQ_SAMPLE of them also through the Coq model (the model side of all 2^14 is the in-Coq sweep)
  COQ_SAMPLE = len(sigs) if quick else 1500
  BUDGET = 1e9 if quick else 210.0
  t_loop = time.time()
  ndone = 0
  for n, sig in enumerate(sigs):
    if time.time() - t_loop > BUDGET:
      res.notes.append(f"time budget: {ndone} of {len(sigs)} signatures (random order) went through the real functions")
      break
    ndone += 1
    to_coq = n < COQ_SAMPLE
    su = setups[n % len(setups)] if n >= 2 * NSTATE else setups[n % 3]  # single bits on the full model
    isig = int(sig)
    lay, size = layout(su.m, isig)
    active = rand_active(su)
    # get: rows with random padding and random previous content
    width = size + int(rng.integers(0, 4))
    rows0 = [rand_bits(rng, width) for _ in range(su.nworld)]
    one_case(su, "get_state", sig, active, rows0, to_coq)
    # set: random values everywhere, eq_active slots from a pool of truthy / falsy / odd values
    active = rand_active(su)
    width = size + int(rng.integers(0, 3))
    rows0 = [rand_bits(rng, width) for _ in range(su.nworld)]
    for i, o, s in lay:
      if i == 9:
        for r in rows0:
          r[o : o + s] = np.array(EQ_VALUES, dtype=np.uint32)[rng.integers(0, len(EQ_VALUES), s)]
    one_case(su, "set_state", sig, active, rows0, to_coq)
    # size function
    import mujoco

    if to_coq:
      lines.append(f"tvz [state_sizeZ {su.name}_sz {coq_sig(isig)}] {vlib.zlist([mujoco.mj_stateSize(su.m, isig)])}")
      meta.append(("size", {"setup": su.idx, "sig": isig}))
    if n < 3:
      res.sample({"kind": "get/set", "model": su.xml[:300], "nworld": su.nworld, "sig": isig, "state_size": size})

  # ---- signatures outside [0, 2^NSTATE)
  out_of_range = [1 << NSTATE, (1 << NSTATE) + 1, 1 << 15, (1 << 31) - 1, 1 << 31, 1 << 40, int(rng.integers(1 << NSTATE, 1 << 30))]
  negative = [-1, -(1 << NSTATE), -5, -int(rng.integers(2, 1 << 20)), -(1 << 40) + 3]  # regression probe (once accepted, acting as their low 14 bits)
  not_rejected = []
  for sig in out_of_range + negative:
    su = setups[1]
    width = layout(su.m, (1 << NSTATE) - 1)[1] + 1
    for kind in ("get_state", "set_state"):
      rows0 = [rand_bits(rng, width, finite=True) for _ in range(su.nworld)]
      if kind == "set_state":
        for i, o, s in layout(su.m, (1 << NSTATE) - 1)[0]:
          if i == 9:
            for r in rows0:
              r[o : o + s] = np.array(EQ_VALUES[:6], dtype=np.uint32)[rng.integers(0, 6, s)]
      raised = one_case(su, kind, sig, None, rows0)
      if raised is None:
        not_rejected.append((kind, sig))
      elif not raised.startswith("ValueError"):
        oracle_fails.append((f"C15:{kind}:sig_range:wrong-exception", f"signature {sig}: {raised}", {"sig": sig, "kind": kind, "xml": su.xml, "nworld": su.nworld}))
  # negative signatures: regression probe for the fixed finding C15:sig_range:negative-signature-accepted
  res.obligation("every signature < 0 or >= 2^NSTATE raises ValueError in get_state and set_state (real code)", not not_rejected, str(not_rejected))
  res.sample({"kind": "sig_range", "probed": out_of_range + negative, "accepted": sorted({s for k, s in not_rejected})})

  # ---- model vs real, inside Coq
  vlib.log(f"[C15] real runs + mujoco oracle: {time.time() - t0:.1f} s, {len(lines)} case lines")
  t0 = time.time()
  verdicts = None
  for attempt in range(3):
    try:
      verdicts = tvalid.run_cases("C15", ["Model.StateCodec"], lines, chunk=300, extra_defs=extra_defs)
      break
    except RuntimeError as e:
      # another check rebuilt Base/*.vo while the case files were compiling: rebuild ours and retry
      if "inconsistent assumptions" not in str(e) or attempt == 2:
        raise
      with vlib.Lock():
        vlib.coq_make([PROPS[:-2] + ".vo"])
  vlib.log(f"[C15] model evaluation in Coq: {time.time() - t0:.1f} s")
  cbad = [m for m, v in zip(meta, verdicts) if v != 0]
  res.obligation(
    "correspondence: Model/StateCodec.v get_state/set_state/state_size = real mjw.get_state/mjw.set_state/mj_stateSize on float32 bit patterns",
    not cbad, f"{len(verdicts)} cases, {len(cbad)} disagreements" + (f"; first: {cbad[0]}" if cbad else ""),
  )  # fmt: skip
  res.extra["correspondence"] = {"cases": len(verdicts), "disagree": len(cbad), "setups": [{"nworld": su.nworld, "sizes": comp_sizes(su.m)} for su in setups]}

  # ---- call sequences run in fresh interpreters (stale kernel specialisation, order dependence)
  seq = collect_sequences(seq_procs, 600)
  seq_err = {o: r["error"] for o, r in seq.items() if "error" in r}
  nseq = 0
  for o, r in seq.items():
    for f in r.get("fails", []):
      oracle_fails.append((f["key"], f["what"], f["data"]))
    nseq += r.get("calls", 0)
    res.count(r.get("calls", 0))
    res.nontrivial(("sequence", o))
  res.obligation(
    "oracle: masked/unmasked call sequences in both orders, each in a fresh process: unselected worlds bit-identical, selected worlds = MuJoCo",
    not seq_err and not any(r.get("fails") for r in seq.values()), json.dumps({o: (r.get("error") or f"{r['calls']} calls, {len(r['fails'])} failures") for o, r in seq.items()}),
  )  # fmt: skip
  if seq_err:
    res.violation("machinery:C15-sequence-subprocess", "sequence subprocess failed", seq_err, found_input=False)

  # ---- report
  seen = set()
  for key, what, data in oracle_fails:
    if key in seen:
      continue
    seen.add(key)
    res.violation(key, what, data)
  res.obligation(
    "oracle: real get_state/set_state agree with mujoco.mj_getState/mj_setState/mj_stateSize on every valid signature; masks respected; get leaves Data, set leaves state; every signature mujoco rejects is rejected",
    not oracle_fails, f"{len(oracle_fails)} failing comparisons",
  )  # fmt: skip
  if cbad and not oracle_fails:
    res.violation("C15:model-mismatch", "the Coq model of get_state/set_state disagrees with the real functions (theorems no longer tied to the code)", cbad[:3], found_input=False)
  if not ok and not oracle_fails:
    propkit.broken_proof_violation(res, "C15 theorems over Model/StateCodec.v", failing)
  if sk_problems and not oracle_fails:
    propkit.broken_proof_violation(res, "C15 kernel-construction skeleton of get_state/set_state", "skeleton:support.py:get_state/set_state", sk_problems)
  res.assumptions += [
    "values are opaque to the codec: theorems are for an arbitrary value type with float(bool)/bool(float) as parameters; the correspondence instantiates float32 bit patterns (bool(x) false exactly for +0.0/-0.0)",
    "state rows at least state_size wide, Data arrays shaped like the Model sizes, active array of length nworld (otherwise out-of-bounds accesses: property C17)",
    "eq_active round-trips only for 0.0/1.0 inputs (hypothesis boolean_on_eq_active, forced by bool(x))",
    "bit 13 (PLUGIN) copies nothing: models have no plugin state (mujoco_warp does not support plugins)",
  ]


def replay(res, path):
  import mujoco  # noqa

  import mujoco_warp as mjw

  r = json.load(open(path))["replay"]
  if isinstance(r, list) or "xml" not in r:
    print("replay: no concrete input in this file (proof/correspondence breakage); re-run the check")
    return 1
  rng = np.random.default_rng(0)
  su = Setup(rng, 0, r["xml"], int(r["nworld"]))
  if "base" in r:
    for f in FIELDS:
      su.base[f] = np.asarray(r["base"][f], dtype=bool if f == "eq_active" else np.float32).reshape(su.base[f].shape)
  kind = r.get("kind", "get_state")
  sig = int(r["sig"])
  rows = r.get("rows") or [[0] * (layout(su.m, sig & ((1 << NSTATE) - 1))[1] + 1)] * su.nworld
  fn = mjw.get_state if kind == "get_state" else mjw.set_state
  for h in r.get("prelude") or []:  # earlier calls of the same process that the failure depends on
    hfn = mjw.get_state if h["kind"] == "get_state" else mjw.set_state
    hrows = [[0] * (layout(su.m, int(h["sig"]))[1] + 1)] * su.nworld
    hraised, _, _ = call_real(hfn, su, hrows, int(h["sig"]), mask_of(h["mask"], su.nworld, rng))
    print(f"prelude: mjw.{h['kind']}(sig={h['sig']}, mask={h['mask']}) raised={hraised}")
  raised, st_after, data_after = call_real(fn, su, rows, sig, r.get("active"))
  rows0 = np.asarray(rows, dtype=np.uint32).reshape(su.nworld, -1)
  fails = mujoco_check(su, kind, sig, r.get("active"), rows0, raised, st_after, data_after)
  print(f"mjw.{kind}(sig={sig}, active={r.get('active')}) raised={raised}")
  print("state after (float32):", st_after.view(np.float32))
  for key, what, _ in fails:
    print("FAIL", key, what)
  return 1 if fails else 0
