"""C01 Kinematics agree with MuJoCo C.

Proof: Props/C01.v -- theorems over R about the executable model Model/Kin.v of
put_model's `branches`/`body_tree`, smooth.py `_kinematics_branch` and `com_pos`
(joint step built from the machine-translated math.py functions of Gen/math.v).
Tie to /repo on every run:
  * correspondence: the Coq model evaluated at binary64 inside Coq against the REAL
    mjw.kinematics + mjw.com_pos (float32) on random trees / random qpos (unnormalised
    quaternions, mocap poses), stored poses scrambled before the launch so that the
    "reads the stored parent pose" structure is exercised; xpos, xquat, xanchor, xaxis,
    geom poses and subtree_com compared with tolerance; `branches` and `body_tree`
    compared exactly with Model.body_branches/body_branch_start/body_tree;
  * oracle: MJWarp against mujoco.mj_kinematics / mj_comPos / mj_camlight / mj_tendon on all
    fields the property names, random models with cameras and lights in every tracking mode,
    fixed and spatial tendons, nworld=2 with a different qpos per world;
  * the directed zero-quaternion scenes (free / ball / mocap quaternion = 0; finding
    C01:zero-quaternion-normalize, repaired in /repo by math.normalize_quat) are kept as
    regression cases in the correspondence and in the oracle."""

from __future__ import annotations

import json

import numpy as np

import propkit
import vlib

MANIFEST = {
  "text": "proof (over R, for the executable model of put_model's branches/body_tree, _kinematics_branch and com_pos): every non-world body lies on a branch and branches are parent-closed root-to-leaf chains; for every well-formed tree, every joint mix, every qpos and mocap pose (unnormalised and zero quaternions included: the regenerated math.normalize_quat is mju_normalize4 for every quaternion), every permutation and every interleaving of the branch tasks, from any stored poses, the launch leaves in every body exactly the pose, anchors and axes of mj_kinematics written as a fold in body order (duplicate writers write equal values); level-by-level leaf-to-root accumulation in any order inside a level equals the recursive subtree sum (generic lemma tree_accumulate), hence subtree_com; the zero-quaternion witness of the repaired finding is proved to agree. Tested only: that the model is the code (per-run correspondence at binary64 vs float32 kernels), float32 rounding, and agreement with MuJoCo of xmat/xipos/ximat/geom/site/camera/light poses in all tracking modes, cdof, cinert, tendon lengths and Jacobians (differential oracle)",
  "note": "trusted: Coq kernel; hand-written model Model/Kin.v (tied to the kernels by the per-run correspondence); translator for math.py (validated by C23; normalize_quat additionally exercised by this correspondence); Base/Vec.v copy of wp.normalize; mujoco binary as oracle; Coq Reals axioms",
  "technique": "Rocq proof over a hand-written executable model built from machine-translated math functions (schedule-independence by invariant, tree induction), per-run model/implementation correspondence, differential oracle against MuJoCo",
  "engine": "coq",
}

PROPS = "Props/C01.v"
FUNCS = ["mul_quat", "rot_vec_quat", "axis_angle_to_quat", "quat_to_mat", "normalize_quat"]
JT = {0: "JFree", 1: "JBall", 2: "JSlide", 3: "JHinge"}
# float32 kernels vs binary64 model: chains of <= 12 bodies, <= 3 joints each; observed error < 3e-6
CORR_TOL = 1e-4
# float32 MJWarp vs float64 MuJoCo, relative to 1 + field magnitude (brief: 1e-4..1e-3)
ORACLE_RTOL = 5e-4


# ------------------------------------------------------------------------------ Coq literals
def fl(x):
  return vlib.flist(np.asarray(x, dtype=np.float64).reshape(-1))


def nat(n):
  return f"{int(n)}%nat"


def natlist(xs):
  return "[" + "; ".join(str(int(x)) for x in xs) + "]%nat"


def tree_literal(m, mm, w=0):
  """Coq term of type `tree` (list (body float)) from the arrays the kernels read (float32)."""

  def arr(name):
    a = getattr(mm, name).numpy()
    return a[w % a.shape[0]]

  body_pos, body_quat, body_ipos = arr("body_pos"), arr("body_quat"), arr("body_ipos")
  body_mass, body_sub = arr("body_mass"), arr("body_subtreemass")
  jnt_pos, jnt_axis = arr("jnt_pos"), arr("jnt_axis")
  parent = mm.body_parentid.numpy()
  mocap = mm.body_mocapid.numpy()
  jadr, jnum = mm.body_jntadr.numpy(), mm.body_jntnum.numpy()
  jtype, jq = mm.jnt_type.numpy(), mm.jnt_qposadr.numpy()
  bodies = []
  for b in range(m.nbody):
    js = []
    for j in range(jadr[b], jadr[b] + jnum[b]):
      js.append(f"mkJoint {JT[int(jtype[j])]} {fl(jnt_pos[j])} {fl(jnt_axis[j])} ({int(jq[j])})%Z")
    mc = f"(Some {nat(mocap[b])})" if mocap[b] >= 0 else "None"
    bodies.append(
      f"mkBody {nat(parent[b])} {fl(body_pos[b])} {fl(body_quat[b])} {mc} [{'; '.join(js)}] {fl(body_ipos[b])} {vlib.fhex(body_mass[b])} {vlib.fhex(body_sub[b])}"
    )
  return "[" + ";\n    ".join(bodies) + "]"


def state_literal(m, mm, qpos, mpos, mquat, w=0):
  q0 = mm.qpos0.numpy()
  q0 = q0[w % q0.shape[0]]
  mp = "[" + "; ".join(fl(p) for p in mpos) + "]"
  mq = "[" + "; ".join(fl(q) for q in mquat) + "]"
  return f"mkState {fl(qpos)} {fl(q0)} {mp} {mq}"


def store_literal(xpos, xquat):
  return "[" + "; ".join(f"mkOut {fl(p)} {fl(q)} []" for p, q in zip(xpos, xquat)) + "]"


# ------------------------------------------------------------------------------ correspondence
def add_refs(rng, xml):
  """Give about half of the hinge/slide joints a non-zero reference position (qpos0), which models.py never sets."""
  out, i = [], 0
  for part in xml.split('<joint name="'):
    if i and ('type="hinge"' in part.split("/>")[0] or 'type="slide"' in part.split("/>")[0]) and rng.random() < 0.5:
      part = part.replace('" type=', f'" ref="{float(rng.normal(0, 0.4)):.4g}" type=', 1)
    out.append(part)
    i += 1
  return '<joint name="'.join(out)


def corr_models(rng, n):
  """Random trees: up to 12 bodies, branching <= 4, 0-3 joints per body, all joint types,
  welded and mocap bodies."""
  import models

  out = []
  k = 0
  while len(out) < n:
    k += 1
    big = rng.random() < 0.5
    o = models.Opts(
      nbody=(1, 12) if big else (1, 5),
      max_children=int(rng.integers(1, 5)),
      multi_joint=float(rng.choice([0.0, 0.4, 0.9])),
      welded=float(rng.choice([0.0, 0.2, 0.5])),
      mocap=float(rng.choice([0.0, 0.5])),
      sites=0.0,
      geom_types=("sphere", "box"),
    )
    xml, info = models.random_model(rng, o)
    out.append(add_refs(rng, xml))
  return out


def shape_key(m):
  """Tree shape up to relabelling: canonical form of (joint types per body, children)."""

  def canon(b):
    js = tuple(int(m.jnt_type[j]) for j in range(m.body_jntadr[b], m.body_jntadr[b] + m.body_jntnum[b]))
    kids = sorted(canon(c) for c in range(1, m.nbody) if m.body_parentid[c] == b)
    return (js, m.body_mocapid[b] >= 0, tuple(kids))

  return repr(canon(0))


def correspondence(res, nmodels, nstates):
  import mujoco
  import warp as wp

  import models
  import mujoco_warp as mjw
  import tvalid

  rng = np.random.default_rng(vlib.seed() + 101)
  lines, meta, topo_bad = [], [], []
  for xml in corr_models(rng, nmodels):
    m = mujoco.MjModel.from_xml_string(xml)
    d = mujoco.MjData(m)
    mm = mjw.put_model(m)
    nworld = 2
    dd = mjw.put_data(m, d, nworld=nworld)
    tree = tree_literal(m, mm)
    # host-side topology: exact comparison
    bb = np.asarray(mm.body_branches).tolist()
    bs = np.asarray(mm.body_branch_start).tolist()
    exp_br = "[" + "; ".join(natlist(bb[bs[i] : bs[i + 1]]) for i in range(len(bs) - 1)) + "]"
    exp_lv = "[" + "; ".join(natlist(a.numpy().tolist()) for a in mm.body_tree) + "]"
    ps = natlist(m.body_parentid)
    lines.append(f"topo_verdict {ps} {exp_br} {exp_lv}")
    meta.append({"kind": "topology", "xml": xml})
    nontriv = len(bs) - 1 >= 2 and any(n >= 2 for n in m.body_jntnum)
    # non-static geoms (the kernel skips geoms welded to the world unless under a mocap body)
    gpos, gquat = mm.geom_pos.numpy()[0], mm.geom_quat.numpy()[0]
    gl = [g for g in range(m.ngeom) if not (m.body_weldid[m.geom_bodyid[g]] == 0 and m.body_mocapid[m.body_rootid[m.geom_bodyid[g]]] == -1)]
    geoms = "[" + "; ".join(f"({nat(m.geom_bodyid[g])}, ({fl(gpos[g])}, {fl(gquat[g])}))" for g in gl) + "]"
    for s in range(nstates):
      qs, mps, mqs, x0, q0 = [], [], [], [], []
      for w in range(nworld):
        models.random_state(rng, m, d)
        qs.append(d.qpos.astype(np.float32).copy())
        mps.append(d.mocap_pos.astype(np.float32).copy())
        mq = rng.normal(0, 1, (m.nmocap, 4)) * 10.0 ** rng.uniform(-1, 1)
        mqs.append(mq.astype(np.float32))
        # scramble the stored poses of the non-world bodies (the launch must not depend on them)
        xp = rng.normal(0, 1, (m.nbody, 3)).astype(np.float32)
        xq = rng.normal(0, 1, (m.nbody, 4)).astype(np.float32)
        xp[0] = 0
        xq[0] = [1, 0, 0, 0]
        x0.append(xp)
        q0.append(xq)
      dd.qpos = wp.array(np.stack(qs), dtype=float)
      dd.mocap_pos = wp.array(np.stack(mps).reshape(nworld, m.nmocap, 3), dtype=wp.vec3)
      dd.mocap_quat = wp.array(np.stack(mqs).reshape(nworld, m.nmocap, 4), dtype=wp.quat)
      dd.xpos = wp.array(np.stack(x0), dtype=wp.vec3)
      dd.xquat = wp.array(np.stack(q0), dtype=wp.quat)
      mjw.kinematics(mm, dd)
      mjw.com_pos(mm, dd)
      xpos, xquat = dd.xpos.numpy(), dd.xquat.numpy()
      xanchor, xaxis = dd.xanchor.numpy(), dd.xaxis.numpy()
      xipos, xmat = dd.xipos.numpy(), dd.xmat.numpy()
      scom = dd.subtree_com.numpy()
      gxpos, gxmat = dd.geom_xpos.numpy(), dd.geom_xmat.numpy()
      for w in range(nworld):
        exp = []
        for b in range(1, m.nbody):
          exp += xpos[w, b].tolist() + xquat[w, b].tolist()
        for j in range(m.njnt):
          exp += xanchor[w, j].tolist() + xaxis[w, j].tolist()
        for b in range(m.nbody):
          exp += xipos[w, b].tolist()
        for b in range(m.nbody):
          exp += xmat[w, b].reshape(-1).tolist()
        for b in range(m.nbody):
          exp += scom[w, b].tolist()
        for g in gl:
          exp += gxpos[w, g].tolist() + gxmat[w, g].reshape(-1).tolist()
        st = state_literal(m, mm, qs[w], mps[w], mqs[w], w)
        init = store_literal(x0[w], q0[w])
        lines.append(f"tv3 {vlib.fhex(CORR_TOL)} (fun Sc => @kin_flat float Sc\n    {tree}\n    ({st})\n    {init}\n    {geoms}) {fl(exp)}")
        meta.append({"kind": "kinematics", "xml": xml, "qpos": qs[w].tolist(), "mocap_pos": mps[w].tolist(), "mocap_quat": mqs[w].tolist(), "nontrivial": nontriv, "shape": shape_key(m)})
  for site, ln in zip(ZQ_SITES, zero_quat_corr_cases()):
    lines.append(ln)
    meta.append({"kind": "zero-quaternion", "site": site, "xml": ZQ_XML})
  verdicts = tvalid.run_cases("C01", ["Gen.math", "Model.Kin"], lines, chunk=max(4, (len(lines) + 11) // 12), extra_defs=EXTRA_DEFS)
  bad, ndisc = [], 0
  for mt, v in zip(meta, verdicts):
    res.count()
    if v == 2:
      bad.append(mt)
    elif v == 1:
      ndisc += 1
    elif mt.get("nontrivial"):
      res.nontrivial(("corr", mt["shape"]))
  if meta:
    res.sample({k: (v if k != "xml" else v[:300]) for k, v in meta[-1].items()})
  res.extra["correspondence"] = {"cases": len(meta), "disagree": len(bad), "discarded": ndisc}
  return bad


EXTRA_DEFS = """
Definition natl_eqb (a b : list nat) : bool := (Nat.eqb (length a) (length b)) && forallb (fun p => Nat.eqb (fst p) (snd p)) (combine a b).
Definition natll_eqb (a b : list (list nat)) : bool := (Nat.eqb (length a) (length b)) && forallb (fun p => natl_eqb (fst p) (snd p)) (combine a b).
Definition topo_verdict (ps : list nat) (br lv : list (list nat)) : nat :=
  if natll_eqb (branches ps) br && natll_eqb (levels ps) lv then 0%nat else 2%nat.
(* everything the model computes for one world, flattened in the order the harness lists the arrays *)
Definition kin_flat {S : Type} `{Scalar S} (t : list (body S)) (st : state S) (init : list (bout S))
    (geoms : list (nat * (list S * list S))) : list S :=
  let o := fk_branch t st init in
  flat_pose (tl o) ++ flat_jnt o
  ++ concat (map2 xipos_of t o) ++ concat (map xmat_of o)
  ++ concat (com_pos t (levels (parents t)) o)
  ++ flat_map (fun g => let r := local_to_global (fst (snd g)) (snd (snd g)) (nth (fst g) o dout) in fst r ++ snd r) geoms.
(* no branch-margin rule: used for the zero-quaternion cases, where the model's `|q| < mjMINVAL` test is within the comparison bias of tv3 by construction *)
Definition tv1 (tol : float) (f : Scalar float -> list float) (exp : list float) : nat :=
  let r0 := f ScalarF0 in
  if negb (all_finite exp && all_finite r0) then 1%nat else if fl_close tol r0 exp then 0%nat else 2%nat.
"""


# ------------------------------------------------------------------------------ oracle (MJWarp vs MuJoCo C)
ORACLE_FIELDS = [
  "xpos", "xquat", "xmat", "xipos", "ximat", "xanchor", "xaxis", "geom_xpos", "geom_xmat", "site_xpos", "site_xmat",
  "cam_xpos", "cam_xmat", "light_xpos", "light_xdir", "subtree_com", "cdof", "cinert", "ten_length", "ten_J",
]  # fmt: skip
MODES = ["fixed", "track", "trackcom", "targetbody", "targetbodycom"]

WRAP_XML = """<mujoco><worldbody>
<site name="s0" pos="0 0 1.2"/>
<body name="a" pos="0 0 1"><joint name="ja" type="hinge" axis="0 1 0"/><geom name="ga" type="capsule" size=".03" fromto="0 0 0 .5 0 0"/>
  <site name="s1" pos=".25 0 .06"/><geom name="wrapc" type="cylinder" size=".06 .05" pos=".5 0 0" euler="90 0 0"/><site name="side" pos=".5 0 .12"/>
  <body name="b" pos=".5 0 0"><joint name="jb" type="hinge" axis="0 1 0"/><geom name="gb" type="capsule" size=".03" fromto="0 0 0 .5 0 0"/>
    <site name="s2" pos=".25 0 .06"/><geom name="wraps" type="sphere" size=".05" pos=".5 0 0"/><site name="s3" pos=".45 0 .12"/>
    <body name="c" pos=".5 0 0"><joint name="jc" type="ball"/><geom name="gc" type="capsule" size=".03" fromto="0 0 0 .3 0 0"/><site name="s4" pos=".2 .02 .05"/></body>
  </body></body>
<body name="f" pos="0 .5 1"><freejoint/><geom size=".05"/><site name="s5" pos="0 0 .1"/></body>
</worldbody>
<tendon>
 <spatial name="t0"><site site="s0"/><site site="s1"/><geom geom="wrapc" sidesite="side"/><site site="s2"/><geom geom="wraps"/><site site="s4"/></spatial>
 <spatial name="t1"><site site="s0"/><site site="s1"/><pulley divisor="2"/><site site="s1"/><site site="s3"/><pulley divisor="2"/><site site="s3"/><site site="s5"/></spatial>
 <fixed name="t2"><joint joint="ja" coef="1.5"/><joint joint="jb" coef="-.7"/></fixed>
</tendon></mujoco>"""


def add_camlights(rng, xml, nbody):
  """Insert cameras and lights (every tracking mode, random targets) into the bodies of a models.random_model XML."""
  for b in range(nbody):
    tag = f'<body name="b{b}"'
    i = xml.find(tag)
    if i < 0:
      continue
    j = xml.index(">", i) + 1
    ins = ""
    for kind in ("camera", "light"):
      if rng.random() < 0.6:
        mode = str(rng.choice(MODES))
        tgt = int(rng.integers(0, nbody))
        attrs = f'name="{kind[0]}x{b}" pos="{models_f(rng.normal(0, 0.3, 3))}" mode="{mode}"'
        if kind == "camera":
          attrs += f' quat="{models_f(rng.normal(0, 1, 4))}"'
        else:
          attrs += f' dir="{models_f(rng.normal(0, 1, 3))}"'
        if mode.startswith("target"):
          # a camera looking at its own body origin from the origin is degenerate in both codes; pick another body
          if tgt == b:
            tgt = (b + 1) % nbody
          if tgt == b:
            mode = "track"
            attrs = attrs.replace('mode="targetbody"', 'mode="track"').replace('mode="targetbodycom"', 'mode="track"')
          else:
            attrs += f' target="b{tgt}"'
        ins += f"<{kind} {attrs}/>"
    xml = xml[:j] + ins + xml[j:]
  return xml


def models_f(x):
  return " ".join(f"{float(v):.6g}" for v in np.atleast_1d(x))


def oracle_models(rng, n):
  import models

  out = [("wrap", WRAP_XML)]
  while len(out) < n:
    o = models.Opts(
      nbody=(2, 9), max_children=int(rng.integers(1, 5)), multi_joint=float(rng.choice([0.0, 0.4, 0.9])), welded=0.2,
      mocap=float(rng.choice([0.0, 0.5])), sites=0.8, tendons=int(rng.integers(0, 3)), geom_types=("sphere", "capsule", "box", "ellipsoid", "cylinder"),
    )  # fmt: skip
    xml, info = models.random_model(rng, o)
    xml = add_refs(rng, add_camlights(rng, xml, info["nbody"]))
    out.append(("random", xml))
  return out


def camlight_margin_ok(m, d):
  """Discard states next to the discontinuities of the target modes (camera on top of its target, or looking
  straight up/down: the normalisations of a ~zero vector amplify float32 round-off without bound)."""
  import mujoco

  for c in range(m.ncam):
    if m.cam_mode[c] in (mujoco.mjtCamLight.mjCAMLIGHT_TARGETBODY, mujoco.mjtCamLight.mjCAMLIGHT_TARGETBODYCOM):
      t = m.cam_targetbodyid[c]
      if t < 0:
        continue
      tp = d.xpos[t] if m.cam_mode[c] == mujoco.mjtCamLight.mjCAMLIGHT_TARGETBODY else d.subtree_com[t]
      v = d.cam_xpos[c] - tp
      nv = np.linalg.norm(v)
      if nv < 0.05 or np.linalg.norm(np.cross([0, 0, 1.0], v / nv)) < 0.05:
        return False
  for l in range(m.nlight):
    if m.light_mode[l] in (mujoco.mjtCamLight.mjCAMLIGHT_TARGETBODY, mujoco.mjtCamLight.mjCAMLIGHT_TARGETBODYCOM):
      t = m.light_targetbodyid[l]
      if t < 0:
        continue
      tp = d.xpos[t] if m.light_mode[l] == mujoco.mjtCamLight.mjCAMLIGHT_TARGETBODY else d.subtree_com[t]
      if np.linalg.norm(d.light_xpos[l] - tp) < 0.05:
        return False
  return True


def mj_reference(m, d):
  import mujoco

  mujoco.mj_kinematics(m, d)
  mujoco.mj_comPos(m, d)
  mujoco.mj_camlight(m, d)
  mujoco.mj_flex(m, d)
  mujoco.mj_tendon(m, d)


def oracle_case(m, mm, qpos_w, mpos_w, mquat_w):
  """Run mjw.fwd_kinematics on nworld=len(qpos_w) worlds with different states and MuJoCo on each; return failures."""
  import mujoco
  import warp as wp

  import mjcmp
  import mujoco_warp as mjw

  nworld = len(qpos_w)
  d = mujoco.MjData(m)
  dd = mjw.put_data(m, d, nworld=nworld)
  dd.qpos = wp.array(np.stack(qpos_w).astype(np.float32), dtype=float)
  if m.nmocap:
    dd.mocap_pos = wp.array(np.stack(mpos_w).astype(np.float32).reshape(nworld, m.nmocap, 3), dtype=wp.vec3)
    dd.mocap_quat = wp.array(np.stack(mquat_w).astype(np.float32).reshape(nworld, m.nmocap, 4), dtype=wp.quat)
  mjw.fwd_kinematics(mm, dd)
  fails, skipped = [], 0
  for w in range(nworld):
    d.qpos[:] = qpos_w[w]
    if m.nmocap:
      d.mocap_pos[:] = mpos_w[w]
      d.mocap_quat[:] = mquat_w[w]
    mj_reference(m, d)
    if not camlight_margin_ok(m, d):
      skipped += 1
      continue
    fields = [f for f in ORACLE_FIELDS if getattr(d, f).size]
    bad = mjcmp.compare_fields(dd, d, fields, world=w, rtol=ORACLE_RTOL, quat_fields=("xquat",))
    if bad:
      fails.append({"world": w, "fields": [(n, e) for n, e in bad], "qpos": [float(x) for x in qpos_w[w]],
                    "mocap_pos": np.asarray(mpos_w[w]).tolist(), "mocap_quat": np.asarray(mquat_w[w]).tolist()})  # fmt: skip
  return fails, skipped


def oracle(res, nmodels, nstates):
  import mujoco

  import models
  import mujoco_warp as mjw

  rng = np.random.default_rng(vlib.seed() + 202)
  fails, nskip, modes_seen = [], 0, set()
  for kind, xml in oracle_models(rng, nmodels):
    m = mujoco.MjModel.from_xml_string(xml)
    mm = mjw.put_model(m)
    d = mujoco.MjData(m)
    for c in range(m.ncam):
      modes_seen.add(("cam", int(m.cam_mode[c])))
    for l in range(m.nlight):
      modes_seen.add(("light", int(m.light_mode[l])))
    for s in range(nstates):
      qs, mps, mqs = [], [], []
      for w in range(2):
        models.random_state(rng, m, d)
        qs.append(d.qpos.copy())
        mps.append(d.mocap_pos.copy())
        mqs.append((rng.normal(0, 1, (m.nmocap, 4)) * 10.0 ** rng.uniform(-1, 1)).astype(np.float32).astype(np.float64))
      f, sk = oracle_case(m, mm, qs, mps, mqs)
      nskip += sk
      res.count(2)
      res.nontrivial(("oracle", kind, xml if kind == "random" else s))
      for x in f:
        x["xml"] = xml
        fails.append(x)
    if kind == "random" and len(res.samples) < 3:
      res.sample({"kind": "oracle", "xml": xml[:300], "ncam": int(m.ncam), "nlight": int(m.nlight), "ntendon": int(m.ntendon), "nmocap": int(m.nmocap)})
  res.extra["oracle"] = {"skipped_near_discontinuity": nskip, "camlight_modes_seen": sorted(modes_seen), "failures": len(fails)}
  return fails


# ------------------------------------------------------------------------------ zero quaternion (F9)
ZQ_XML = (
  '<mujoco><worldbody><body name="f" pos="0 0 1"><freejoint/><geom type="sphere" size="0.1" pos="0.5 0 0"/></body>'
  '<body name="h" pos="0 1 1"><joint type="ball"/><geom type="sphere" size="0.1" pos="0.5 0 0"/></body>'
  '<body name="m" mocap="true" pos="0 2 1"><geom type="sphere" size="0.1" pos="0.5 0 0" contype="0" conaffinity="0"/></body>'
  "</worldbody></mujoco>"
)
ZQ_SITES = {"free": (slice(3, 7), 0), "ball": (slice(7, 11), 1), "mocap": (None, 2)}


def zero_quat_run(site):
  """geom_xpos of the body whose free / ball / mocap quaternion is zero: (mjw, mujoco)."""
  import mujoco

  import mujoco_warp as mjw

  m = mujoco.MjModel.from_xml_string(ZQ_XML)
  d = mujoco.MjData(m)
  d.qpos[:] = m.qpos0
  sl, g = ZQ_SITES[site]
  if sl is None:
    d.mocap_quat[:] = 0
  else:
    d.qpos[sl] = 0
  mm = mjw.put_model(m)
  dd = mjw.put_data(m, d)
  mjw.kinematics(mm, dd)
  mujoco.mj_kinematics(m, d)
  return dd.geom_xpos.numpy()[0, g].astype(float), d.geom_xpos[g].copy(), dd.xquat.numpy()[0, g + 1].astype(float), d.xquat[g + 1].copy()


def zero_quat_witness(res):
  """Regression of the repaired finding (Props/C01.v C01_fk_zero_quat_agrees) on the real code: any site where
  MJWarp and MuJoCo differ again is returned."""
  diffs = {}
  for site in ZQ_SITES:
    a, b, qa, qb = zero_quat_run(site)
    res.count()
    if np.abs(a - b).max() > 1e-3:
      diffs[site] = {"mjw_geom_xpos": a.tolist(), "mujoco_geom_xpos": b.tolist(), "mjw_xquat": qa.tolist(), "mujoco_xquat": qb.tolist()}
  return diffs


def zero_quat_corr_cases():
  """Correspondence at the zero quaternion (|q| = 0 is within tv3's comparison bias of mjMINVAL: no branch-margin rule)."""
  import mujoco

  import mujoco_warp as mjw

  lines = []
  m = mujoco.MjModel.from_xml_string(ZQ_XML)
  mm = mjw.put_model(m)
  tree = tree_literal(m, mm)
  for site, (sl, g) in ZQ_SITES.items():
    d = mujoco.MjData(m)
    d.qpos[:] = m.qpos0
    mq = np.array([[1.0, 0, 0, 0]])
    if sl is None:
      mq[:] = 0
      d.mocap_quat[:] = 0
    else:
      d.qpos[sl] = 0
    dd = mjw.put_data(m, d)
    mjw.kinematics(mm, dd)
    exp = []
    for b in range(1, m.nbody):
      exp += dd.xpos.numpy()[0, b].tolist() + dd.xquat.numpy()[0, b].tolist()
    st = state_literal(m, mm, d.qpos, d.mocap_pos, mq)
    init = store_literal(np.zeros((m.nbody, 3)), np.tile([1.0, 0, 0, 0], (m.nbody, 1)))
    lines.append(f"tv1 {vlib.fhex(CORR_TOL)} (fun Sc => flat_pose (tl (@fk_branch float Sc\n    {tree}\n    ({st})\n    {init}))) {fl(exp)}")
  return lines


# ------------------------------------------------------------------------------ entry points
def run(res):
  quick = res.tier == "quick"
  res.rule = (
    "correspondence cases: one per (random tree, world state) plus one topology case per tree and three zero-quaternion cases; "
    "distinct = tree shapes (joint types per body, mocap flags, children; up to relabelling) with >= 2 branches and >= 1 multi-joint body that agree; "
    "oracle: distinct random models (cameras/lights in all five modes, fixed+spatial tendons, mocap) x states, nworld=2 with different qpos per world"
  )
  ok, trs, failing = propkit.prove(res, PROPS, gen_names=["math"], required_funcs=FUNCS)
  bad = correspondence(res, 24 if quick else 240, 2 if quick else 4)
  res.obligation("correspondence Model/Kin.v vs mjw.kinematics + com_pos (xpos, xquat, xanchor, xaxis, xipos, xmat, geom poses, subtree_com; branches, body_tree)", not bad, f"{len(bad)} disagreements")
  fails = oracle(res, 60 if quick else 1200, 3 if quick else 6)
  res.obligation("oracle MJWarp fwd_kinematics vs mj_kinematics/mj_comPos/mj_camlight/mj_tendon", not fails, f"{len(fails)} failing (model, state) pairs")
  for f in fails[:3]:
    names = ",".join(n for n, _ in f["fields"])
    res.violation("C01:oracle:" + f["fields"][0][0], f"MJWarp and MuJoCo disagree beyond float32 tolerance on {names}", f)
  diffs = zero_quat_witness(res)
  if diffs:
    res.violation(
      "C01:zero-quaternion-normalize",
      "zero free/ball/mocap quaternion (regression of the repaired finding): MJWarp and mju_normalize4 (identity) disagree; "
      f"geom at x=0.5 of a body at (0,*,1): sites {sorted(diffs)} differ, e.g. {next(iter(diffs.values()))}",
      {"xml": ZQ_XML, "sites": diffs, "how": "qpos0 with the site's quaternion set to 0; mjw.kinematics vs mujoco.mj_kinematics; compare geom_xpos"},
    )
  if bad and not fails:
    # the model no longer reproduces the kernels and the oracle found no disagreement with MuJoCo
    propkit.broken_proof_violation(res, "correspondence Model/Kin.v vs mjw.kinematics/com_pos (model not tied to code)", "correspondence:Model/Kin.v", bad[:2])
  if not ok and not fails:
    propkit.broken_proof_violation(res, "C01 theorems over Model/Kin.v and regenerated math.py", failing)
  res.assumptions += [
    "float32 rounding is not modelled: theorems are over R; correspondence tolerance 1e-4, oracle tolerance 5e-4 relative to 1 + field magnitude",
    "no norm hypothesis on state quaternions: math.normalize_quat (regenerated) is proved equal to the specification's mju_normalize4 for every quaternion",
    "well-formedness supplied by the MuJoCo compiler and assumed: parent index < own index, unit body_quat and hinge axes, free joint only as the single joint of a body, mocap bodies jointless children of the world",
    "camera/light tracking modes, tendon wrapping, cdof, cinert, ximat are compared against MuJoCo by the oracle only (no theorem); flex is left to C40",
    "the specification's normalisation scales whenever norm >= mjMINVAL (mju_normalize4 skips the scaling when |norm-1| <= mjMINVAL)",
  ]


def replay(res, path):
  r = json.load(open(path))
  key, data = r.get("key", ""), r.get("replay")
  if key == "C01:zero-quaternion-normalize":
    rc = 0
    for site in ZQ_SITES:
      a, b, qa, qb = zero_quat_run(site)
      print(f"{site}: mjw geom_xpos {a} xquat {qa} | mujoco geom_xpos {b} xquat {qb}")
      if np.abs(a - b).max() > 1e-3:
        rc = 1
    return rc
  if isinstance(data, dict) and "xml" in data and "qpos" in data:
    import mujoco

    import mujoco_warp as mjw

    m = mujoco.MjModel.from_xml_string(data["xml"])
    mm = mjw.put_model(m)
    q = np.array(data["qpos"])
    mp, mq = np.array(data["mocap_pos"]).reshape(m.nmocap, 3), np.array(data["mocap_quat"]).reshape(m.nmocap, 4)
    f, sk = oracle_case(m, mm, [q, q], [mp, mp], [mq, mq])
    print("failures:", f)
    return 1 if f else 0
  print("replay: no concrete input in this file (proof/correspondence breakage); re-run the check")
  return 1
