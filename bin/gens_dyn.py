"""T generator for the pure @wp.func helpers of the passive-force code (C02).

passive.py: `_pow2`, `_pow4`, `geom_semiaxes`, `ellipsoid_max_moment`;
util_misc.py: `_poly_force`, `_poly_force_deriv`, `poly_potential` (polynomial stiffness / damping).
-> Gen/passive_util.v.  The kernels themselves (`_spring_damper_dof_passive`, `_fluid_force`, ...) write
arrays in place and are outside the translator's subset; C02 compares them with MuJoCo C (oracle)."""

from __future__ import annotations

import os

import vlib

_cache = {}

PASSIVE_FUNCS = ("_pow2", "_pow4", "geom_semiaxes", "ellipsoid_max_moment")
UTIL_FUNCS = ("_poly_force", "_poly_force_deriv", "poly_potential")


def gen_passive_util():
  import translate as T

  if "passive_util" in _cache:
    return _cache["passive_util"]
  import mujoco_warp._src.passive as pp
  import mujoco_warp._src.util_misc as um

  tr = T.Translator()
  for n in PASSIVE_FUNCS:
    tr.want(pp.__name__, n)
  for n in UTIL_FUNCS:
    tr.want(um.__name__, n)
  tr.emit(os.path.join(vlib.COQ, "Gen", "passive_util.v"), "")
  _cache["passive_util"] = tr
  return tr


GENS = {"passive_util": gen_passive_util}
