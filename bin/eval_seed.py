"""Evaluate one seeded change in isolation.  usage: eval_seed.py <seed id> <property> <source> [extra props...]

<source> is a seeding agent's output directory (patch.diff, demo.py, notes.md) or an existing
/verif/seeded/<seed id> directory.  Steps:
0. a fresh worktree of /repo's CURRENT HEAD gets the patch (so fixes committed since the seed was written are in);
   a private copy of /verif is made so that Gen/Corr/evidence of the live tree are not touched;
1. demo.py must exit 0 with PYTHONPATH=/repo and non-zero with PYTHONPATH=<worktree>;
2. the pinned test suite must still pass on the worktree (every stable_pass test of BASELINE.json);
3. ./check <property> (and extra props) runs in the private copy with VERIF_REPO=<worktree>;
4. results go to /verif/seeded/<seed id>/ (patch.diff, demo.py, notes.md, meta.json); scratch is removed."""
import json, os, shutil, subprocess, sys, time, xml.etree.ElementTree as ET

sid, prop, src = sys.argv[1:4]
extra = sys.argv[4:]
VERIF = os.path.dirname(os.path.dirname(os.path.abspath(__file__)))
dst = f"{VERIF}/seeded/{sid}"
os.makedirs(dst, exist_ok=True)
for f in ("patch.diff", "demo.py", "notes.md"):
  if os.path.abspath(src) != os.path.abspath(dst) and os.path.exists(f"{src}/{f}"):
    shutil.copy(f"{src}/{f}", f"{dst}/{f}")

def run(cmd, env=None, timeout=3000, cwd=None):
  e = dict(os.environ); e.update(env or {})
  try:
    p = subprocess.run(cmd, shell=True, capture_output=True, text=True, timeout=timeout, env=e, cwd=cwd)
    return p.returncode, (p.stdout + p.stderr)
  except subprocess.TimeoutExpired as ex:
    return 124, f"TIMEOUT {timeout}s"

wt, pv = f"/tmp/ev_{sid}_wt", f"/tmp/ev_{sid}_verif"
run(f"git -C /repo worktree remove --force {wt}"); shutil.rmtree(wt, ignore_errors=True); shutil.rmtree(pv, ignore_errors=True)
rc, o = run(f"git -C /repo worktree add -f --detach {wt} HEAD")
assert rc == 0, o
meta = {"seed": sid, "property": prop, "repo_head": subprocess.check_output(["git", "-C", "/repo", "rev-parse", "--short", "HEAD"]).decode().strip()}
rc, o = run(f"git apply {dst}/patch.diff || git apply --3way {dst}/patch.diff", cwd=wt)
meta["patch_applies"] = rc == 0
if rc != 0:
  meta["kept"] = False; meta["patch_error"] = o[-500:]
  json.dump(meta, open(f"{dst}/meta.json", "w"), indent=1); print(json.dumps(meta)); run(f"git -C /repo worktree remove --force {wt}"); sys.exit(1)
run(f"rsync -a --exclude .git --exclude replays --exclude seeded --exclude 'build/*.lock' {VERIF}/ {pv}/")

rc0, o0 = run(f"/venv/bin/python {dst}/demo.py", {"PYTHONPATH": "/repo"}, cwd="/tmp")
rc1, o1 = run(f"/venv/bin/python {dst}/demo.py", {"PYTHONPATH": wt}, cwd="/tmp")
meta["demo_on_repo_rc"], meta["demo_on_change_rc"] = rc0, rc1
meta["demo_on_change_tail"] = o1[-600:]
if rc0 != 0:
  meta["demo_on_repo_tail"] = o0[-600:]
# test suite
t = time.time()
rc, o = run(f"/venv/bin/python -m pytest -q -p no:cacheprovider --timeout=900 --continue-on-collection-errors -n 6 --junitxml=/tmp/ev_{sid}.xml", cwd=wt, timeout=6000)
stable = set(json.load(open("/root/.vp/BASELINE.json"))["stable_pass"])
passed = set()
try:
  for tc in ET.parse(f"/tmp/ev_{sid}.xml").getroot().iter("testcase"):
    if not list(tc):
      passed.add(tc.get("classname") + "::" + tc.get("name"))
except Exception as e:
  meta["suite_error"] = str(e)
meta["stable_tests_broken"] = sorted(stable - passed)[:20]
meta["suite_seconds"] = round(time.time() - t)
# checks
meta["checks"] = {}
for p in [prop] + extra:
  t = time.time()
  rc, o = run(f"./check {p} --tier quick", {"VERIF_REPO": wt}, cwd=pv, timeout=3000)
  lines = [l for l in o.splitlines() if l.startswith("VIOLATION") or l.startswith("  ->") or l.startswith("[" + p)]
  keys = []
  for l in lines:
    if l.startswith("VIOLATION") and "replay=" in l:
      rp = l.split("replay=")[1].split()[0]
      try:
        r = json.load(open(rp)); keys.append({"key": r.get("key"), "what": str(r.get("what"))[:300]})
      except Exception:
        pass
  meta["checks"][p] = {"exit": rc, "violation": any(l.startswith("VIOLATION") for l in lines),
                       "no_failing_input": bool(lines) and all("no-failing-input-found" in l for l in lines if l.startswith("VIOLATION")) and any(l.startswith("VIOLATION") for l in lines),
                       "seconds": round(time.time() - t), "violations": keys[:6], "lines": [l[:300] for l in lines[:8]]}
old = {}
try:
  old = json.load(open(f"{dst}/meta.json"))
except Exception:
  pass
meta["what_it_needs"] = old.get("what_it_needs", "")
# earlier evaluations (before checks were strengthened) are kept
meta["history"] = old.get("history", [])
if old.get("checks"):
  meta["history"].append({"repo_head": old.get("repo_head") or old.get("worktree_head"), "checks": {p: {"violation": c.get("violation"), "no_failing_input": c.get("no_failing_input")} for p, c in old["checks"].items()}})
meta["kept"] = bool(rc0 == 0 and rc1 != 0 and not meta["stable_tests_broken"])
json.dump(meta, open(f"{dst}/meta.json", "w"), indent=1)
print(json.dumps({k: meta[k] for k in ("seed", "demo_on_repo_rc", "demo_on_change_rc", "stable_tests_broken", "kept")}), {p: (c["violation"], c["no_failing_input"]) for p, c in meta["checks"].items()}, flush=True)
run(f"git -C /repo worktree remove --force {wt}"); shutil.rmtree(wt, ignore_errors=True); shutil.rmtree(pv, ignore_errors=True)
try:
  os.remove(f"/tmp/ev_{sid}.xml")
except OSError:
  pass
