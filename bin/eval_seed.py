"""Evaluate one seeded change: usage eval_seed.py <seed id> <property> <worktree> <outdir> [extra props...]
1. demo.py must exit 0 with PYTHONPATH=/repo and non-zero with PYTHONPATH=<worktree>;
2. the pinned test suite must still pass on the worktree (every stable_pass test of BASELINE.json);
3. run ./check <property> (and extra props) with VERIF_REPO=<worktree>; record whether a VIOLATION is reported;
4. store everything under /verif/seeded/<seed id>/ (patch.diff, demo.py, notes.md, meta.json)."""
import json, os, shutil, subprocess, sys, time, xml.etree.ElementTree as ET

sid, prop, wt, out = sys.argv[1:5]
extra = sys.argv[5:]
dst = f"/verif/seeded/{sid}"
os.makedirs(dst, exist_ok=True)
meta = {"seed": sid, "property": prop, "worktree_head": subprocess.check_output(["git", "-C", wt, "rev-parse", "--short", "HEAD"]).decode().strip()}
patch = subprocess.check_output(["git", "-C", wt, "diff"]).decode()
open(f"{dst}/patch.diff", "w").write(patch)
for f in ("demo.py", "notes.md"):
  if os.path.exists(f"{out}/{f}"):
    shutil.copy(f"{out}/{f}", f"{dst}/{f}")

def run(cmd, env=None, timeout=3000, cwd=None):
  e = dict(os.environ); e.update(env or {})
  p = subprocess.run(cmd, shell=True, capture_output=True, text=True, timeout=timeout, env=e, cwd=cwd)
  return p.returncode, (p.stdout + p.stderr)

rc0, o0 = run(f"/venv/bin/python {dst}/demo.py", {"PYTHONPATH": "/repo"}, cwd="/tmp")
rc1, o1 = run(f"/venv/bin/python {dst}/demo.py", {"PYTHONPATH": wt}, cwd="/tmp")
meta["demo_on_repo_rc"], meta["demo_on_change_rc"] = rc0, rc1
meta["demo_on_change_tail"] = o1[-600:]
# test suite
t = time.time()
rc, o = run(f"/venv/bin/python -m pytest -q -p no:cacheprovider --timeout=900 --continue-on-collection-errors --junitxml=/tmp/seed_{sid}.xml", cwd=wt, timeout=6000)
stable = set(json.load(open("/root/.vp/BASELINE.json"))["stable_pass"])
passed = set()
try:
  for tc in ET.parse(f"/tmp/seed_{sid}.xml").getroot().iter("testcase"):
    if not list(tc):
      passed.add(tc.get("classname") + "::" + tc.get("name"))
except Exception as e:
  meta["suite_error"] = str(e)
meta["stable_tests_broken"] = sorted(stable - passed)[:20]
meta["suite_seconds"] = round(time.time() - t)
# checks
meta["checks"] = {}
for p in [prop] + extra:
  rc, o = run(f"./check {p} --tier quick", {"VERIF_REPO": wt}, cwd="/verif", timeout=3000)
  lines = [l for l in o.splitlines() if l.startswith("VIOLATION") or l.startswith("  ->") or l.startswith("[" + p)]
  meta["checks"][p] = {"exit": rc, "violation": any(l.startswith("VIOLATION") for l in lines), "no_failing_input": any("no-failing-input-found" in l for l in lines), "lines": lines[:8]}
meta["what_it_needs"] = ""
meta["kept"] = bool(rc0 == 0 and rc1 != 0 and not meta["stable_tests_broken"])
json.dump(meta, open(f"{dst}/meta.json", "w"), indent=1)
print(json.dumps({k: meta[k] for k in ("seed", "demo_on_repo_rc", "demo_on_change_rc", "stable_tests_broken", "kept")}), {p: (c["violation"], c["no_failing_input"]) for p, c in meta["checks"].items()})
# restore Gen from /repo
subprocess.run("PYTHONPATH=/repo:/verif/bin /venv/bin/python -c \"import gens\nfor g in gens.GENS.values():\n  try: g()\n  except Exception: pass\"", shell=True, capture_output=True, cwd="/verif")
