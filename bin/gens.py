"""Generator registry: regenerate coq/Gen/*.v from /repo's current source (T and S ties).

Each bin/gens_<topic>.py defines GENS = {name: callable}.  A generator (re)writes
coq/Gen/<name>.v with vlib.write_if_changed and returns an object with an `errors` dict
(translator) or any result object; it must be idempotent and memoised per process."""

from __future__ import annotations

import glob
import importlib
import os

GENS = {}


def _load():
  here = os.path.dirname(os.path.abspath(__file__))
  for p in sorted(glob.glob(os.path.join(here, "gens_*.py"))):
    mod = importlib.import_module(os.path.basename(p)[:-3])
    for k, v in getattr(mod, "GENS", {}).items():
      if k in GENS and GENS[k] is not v:
        raise RuntimeError(f"duplicate generator {k}")
      GENS[k] = v


_load()
