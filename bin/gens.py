"""Generators: regenerate coq/Gen/*.v from /repo's current source (T and S ties)."""

from __future__ import annotations

import os

import vlib

_cache = {}


def _emit(tr, name, imports=()):
  header = "".join(f"From VF Require Import {i}.\n" for i in imports)
  tr.emit(os.path.join(vlib.COQ, "Gen", name + ".v"), header)
  return tr


def gen_math():
  """All @wp.func of math.py."""
  import warp as wp

  import translate as T

  if "math" in _cache:
    return _cache["math"]
  import mujoco_warp._src.math as mm

  tr = T.Translator()
  names = [n for n, v in vars(mm).items() if isinstance(v, wp.Function) and v.func is not None and v.func.__module__ == mm.__name__]
  for n in names:
    if n == "safe_div":
      tr.want(mm.__name__, n, [T.S, T.S])
    elif n == "normalize_with_norm":
      tr.want(mm.__name__, n, [T.V(3)])
    else:
      tr.want(mm.__name__, n)
  _emit(tr, "math")
  _cache["math"] = tr
  return tr


GENS = {"math": gen_math}


def regenerate(names):
  """Return {name: translator-or-result}, raising nothing: errors are inside."""
  out = {}
  for n in names:
    out[n] = GENS[n]()
  return out
