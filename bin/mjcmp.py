"""Differential oracle: MJWarp (float32, CPU Warp) against the MuJoCo C binary (float64)
on the same model and state.  Used as the *search* stage and implementation-level
oracle of the "agrees with MuJoCo C" properties.  It is a test, never a theorem.

Tolerance rule (float32 vs float64, no false alarms): a field passes when
    max |a - b| <= rtol * (scale + max(|a|, |b|))
with scale = 1 by default; per-field overrides are given by the caller with a reason."""

from __future__ import annotations

import numpy as np


def make(xml_or_model, nworld=1, put=True, **kw):
  import mujoco

  import mujoco_warp as mjw

  m = mujoco.MjModel.from_xml_string(xml_or_model) if isinstance(xml_or_model, str) else xml_or_model
  d = mujoco.MjData(m)
  mm = mjw.put_model(m)
  return m, d, mm


def cmp_arrays(a, b, rtol, scale=1.0):
  a = np.asarray(a, dtype=np.float64)
  b = np.asarray(b, dtype=np.float64)
  if a.shape != b.shape:
    try:
      b = b.reshape(a.shape)
    except ValueError:
      return False, float("inf")
  if a.size == 0:
    return True, 0.0
  if np.isnan(a).any() or np.isnan(b).any():
    return bool(np.array_equal(np.isnan(a), np.isnan(b))), float("nan")
  err = float(np.max(np.abs(a - b)))
  bound = rtol * (scale + float(max(np.max(np.abs(a)), np.max(np.abs(b)))))
  return err <= bound, err


def quat_align(a, b):
  """Flip the sign of quaternion rows of b to match a (q and -q are the same rotation)."""
  a = np.asarray(a, dtype=np.float64).reshape(-1, 4)
  b = np.asarray(b, dtype=np.float64).reshape(-1, 4).copy()
  s = np.sign(np.sum(a * b, axis=1))
  s[s == 0] = 1
  return a, b * s[:, None]


def compare_fields(dd, d, fields, world=0, rtol=1e-4, overrides=None, quat_fields=()):
  """fields: list of names or (mjw_name, mj_name). Returns list of failures (name, err)."""
  overrides = overrides or {}
  bad = []
  for f in fields:
    wn, cn = (f, f) if isinstance(f, str) else f
    obj = dd
    for part in wn.split("."):
      obj = getattr(obj, part)
    a = obj.numpy()
    a = a[world] if a.ndim >= 1 and a.shape[0] > world and wn not in ("nacon",) else a
    ref = d
    for part in cn.split("."):
      ref = getattr(ref, part)
    b = np.asarray(ref)
    a = np.asarray(a)
    if a.size != b.size:
      # MJWarp pads some arrays; compare the MuJoCo-sized prefix when shapes allow
      if a.ndim == b.ndim and all(x >= y for x, y in zip(a.shape, b.shape)):
        a = a[tuple(slice(0, n) for n in b.shape)]
      elif a.size > b.size and a.ndim == 1:
        a = a[: b.size]
      else:
        bad.append((wn, float("inf")))
        continue
    r = overrides.get(wn, rtol)
    if wn in quat_fields:
      a, b = quat_align(a, b)
    ok, err = cmp_arrays(a, b, r)
    if not ok:
      bad.append((wn, err))
  return bad


def set_state(m, d, dd_or_none, qpos=None, qvel=None, act=None, ctrl=None, mocap_pos=None, mocap_quat=None):
  if qpos is not None:
    d.qpos[:] = qpos
  if qvel is not None:
    d.qvel[:] = qvel
  if act is not None and m.na:
    d.act[:] = act
  if ctrl is not None and m.nu:
    d.ctrl[:] = ctrl
  if mocap_pos is not None and m.nmocap:
    d.mocap_pos[:] = mocap_pos
  if mocap_quat is not None and m.nmocap:
    d.mocap_quat[:] = mocap_quat


def contact_multiset(geoms, dist, pos, decimals=4):
  """Canonical multiset of contacts keyed by (sorted geom pair, rounded dist, rounded pos)."""
  out = []
  for g, di, p in zip(geoms, dist, pos):
    g = tuple(int(x) for x in g)
    out.append((g, round(float(di), decimals), tuple(round(float(x), decimals) for x in p)))
  return sorted(out)
