"""T generators for math.py."""

from __future__ import annotations

import os

import vlib

_cache = {}


def emit(tr, name, imports=()):
  header = "".join(f"From VF Require Import {i}.\n" for i in imports)
  tr.emit(os.path.join(vlib.COQ, "Gen", name + ".v"), header)
  return tr


def module_funcs(mod):
  import warp as wp

  return [n for n, v in vars(mod).items() if isinstance(v, wp.Function) and v.func is not None and v.func.__module__ == mod.__name__]


def gen_math():
  """All @wp.func of math.py -> Gen/math.v."""
  import translate as T

  if "math" in _cache:
    return _cache["math"]
  import mujoco_warp._src.math as mm

  tr = T.Translator()
  for n in module_funcs(mm):
    if n == "safe_div":
      tr.want(mm.__name__, n, [T.S, T.S])
    elif n == "normalize_with_norm":
      tr.want(mm.__name__, n, [T.V(3)])
    else:
      tr.want(mm.__name__, n)
  emit(tr, "math")
  _cache["math"] = tr
  return tr


GENS = {"math": gen_math}
