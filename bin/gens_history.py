"""T generator for history.py: `_history_physical_index`, `_history_find_index` (while loop over a read-only
array, modelled as a total function Z -> Z -> S) and `_history_read_scalar`.

The insert helpers write into a `wp.array2d` in place, which is outside the translator's @wp.func subset; they
(and the vector read) are hand-modelled in coq/Model/History.v and tied to /repo by the correspondence check of
C30 on every run.  Model/History.v uses the translated `_history_physical_index` directly; Proof/History.v proves
that the model's find_index equals the translated `_history_find_index` on the encoded buffer."""

from __future__ import annotations

import os

import vlib

_cache = {}


def gen_history():
  """`_history_physical_index` of history.py -> Gen/history.v."""
  import translate as T

  if "history" in _cache:
    return _cache["history"]
  import mujoco_warp._src.history as hh

  tr = T.Translator()
  for fn in ("_history_physical_index", "_history_find_index", "_history_read_scalar"):
    tr.want(hh.__name__, fn)
  tr.emit(os.path.join(vlib.COQ, "Gen", "history.v"), "")
  _cache["history"] = tr
  return tr


GENS = {"history": gen_history}
