"""T generator for history.py: the pure integer index helper `_history_physical_index`.

The other helpers of history.py (`_history_find_index`, `_history_read_*`, `_history_insert_*`) use a
`while` loop and in-place writes to a `wp.array2d`, which are outside the translator's subset; they are
hand-modelled in coq/Model/History.v and tied to /repo by the correspondence check of C30 (every run)."""

from __future__ import annotations

import os

import vlib

_cache = {}


def gen_history():
  """`_history_physical_index` of history.py -> Gen/history.v."""
  import translate as T

  if "history" in _cache:
    return _cache["history"]
  import mujoco_warp._src.history as hh

  tr = T.Translator()
  tr.want(hh.__name__, "_history_physical_index")
  tr.emit(os.path.join(vlib.COQ, "Gen", "history.v"), "")
  _cache["history"] = tr
  return tr


GENS = {"history": gen_history}
