"""T generators for the pure @wp.func of solver.py (constraint cost/force evaluation)
and support.py (pyramid decoding, contact_force_fn)."""

from __future__ import annotations

import os

import vlib

_cache = {}

# row evaluation (_update_constraint_efc) and the line-search point evaluators that
# share its zone logic
SOLVER_FUNCS = [
  "_eval_elliptic_middle",
  "_eval_constraint",
  "_eval_frictionloss_pt",
  "_eval_frictionloss_cost",
  "_eval_frictionloss_pt_one",
  "_eval_frictionloss_pt_3alphas",
  "_eval_pt_direct_alpha_zero",
  "_eval_pt_direct_cost_alpha_zero",
  "_eval_pt_direct",
  "_eval_elliptic_reference",
  "_eval_elliptic_alpha_zero",
  "_eval_elliptic_quadratic_cone_gap",
  "_eval_elliptic_quadratic_shifted",
  "_eval_elliptic_shifted",
  "_state_check",
]
SUPPORT_FUNCS = ["_decode_pyramid", "contact_force_fn"]


def _emit(tr, name, imports=()):
  header = "".join(f"From VF Require Import {i}.\n" for i in imports)
  tr.emit(os.path.join(vlib.COQ, "Gen", name + ".v"), header)
  return tr


def gen_solver():
  """solver.py row evaluators -> Gen/solver.v (self-contained: helpers of math.py they call are re-emitted)."""
  import translate as T

  if "solver" in _cache:
    return _cache["solver"]
  import mujoco_warp._src.solver as sv

  tr = T.Translator()
  for n in SOLVER_FUNCS:
    if hasattr(sv, n):
      tr.want(sv.__name__, n)
    else:
      tr.errors[f"{sv.__name__}.{n}"] = "function no longer exists in solver.py"
  _emit(tr, "solver")
  _cache["solver"] = tr
  return tr


def gen_support():
  """support.py contact force decoding -> Gen/support.v."""
  import translate as T

  if "support" in _cache:
    return _cache["support"]
  import mujoco_warp._src.support as sp

  tr = T.Translator()
  for n in SUPPORT_FUNCS:
    if hasattr(sp, n):
      tr.want(sp.__name__, n)
    else:
      tr.errors[f"{sp.__name__}.{n}"] = "function no longer exists in support.py"
  # the launching kernel of contact_force (which world a request slot reads): translated task function
  tr.kernels = {}
  k = getattr(sp, "contact_force_kernel", None)
  if k is None:
    tr.errors[f"{sp.__name__}.contact_force_kernel"] = "kernel no longer exists in support.py"
  else:
    fi = tr.want_kernel(k)
    if fi is not None:
      tr.kernels["contact_force_kernel"] = fi
  _emit(tr, "support")
  _cache["support"] = tr
  return tr


GENS = {"solver": gen_solver, "support": gen_support}
