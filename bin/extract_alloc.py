"""S-extractor for C16/C17/C11: allocation skeleton of every kernel that allocates slots of a
capacity-limited buffer with a counter (`wp.atomic_add` or a serial counter).

Source -> Coq data.  A Python `ast` pass over

  constraint.py       every kernel with wp.atomic_add on nefc_out (row builders)
  collision_core.py   write_contact        (nacon_out   vs naconmax)
  collision_driver.py _add_geom_pair       (ncollision_out vs naconmax)
  island.py           _compact_dofs        (serial `count` vs nvmax, flags NVMAX itself)
  forward.py          _next_time_builder   (which probe sets which overflow bit)

For every allocating kernel the pass extracts, in *textual execution order along the
allocating path*: the counters bumped and by how much, the comparison that guards the
early return (operator and constant offset, normalised to "dropped iff old CMP cap + off"),
the sparse non-zero allocation (amount, guard) and whether the per-row metadata
(efc_J_rowadr / efc_J_rownnz) is stored before or after that guard, whether the stored
rownnz is the amount that was requested, whether the allocation sits in a loop, and
whether the rows are produced by later kernels (contact_efc_address stored = "deferred").

The pass FAILS CLOSED: any allocating kernel whose shape is not one of those understood
below raises ExtractError (the check then reports the regeneration as broken)."""

from __future__ import annotations

import ast
import os

import vlib

SRC = os.path.join(vlib.REPO, "mujoco_warp", "_src")

TYPE_COUNTERS = {"ne_out": 0, "nf_out": 1, "nl_out": 2}
AUX_COUNTERS = {"efc_jtdaj_nblock_out"}
META_ADR, META_RNZ, DEFER = "efc_J_rowadr_out", "efc_J_rownnz_out", "contact_efc_address_out"


class ExtractError(Exception):
  pass


def src(n):
  return ast.unparse(n)


def _is_call(n, name):
  """wp.<name>(...) or <name>(...)"""
  if not isinstance(n, ast.Call):
    return False
  f = n.func
  return (isinstance(f, ast.Attribute) and f.attr == name) or (isinstance(f, ast.Name) and f.id == name)


def _find_calls(n, name):
  return [c for c in ast.walk(n) if _is_call(c, name)]


def _is_static_test(t):
  if _is_call(t, "static"):
    return True
  if isinstance(t, ast.UnaryOp) and isinstance(t.op, ast.Not):
    return _is_static_test(t.operand)
  return False


def _only_flag_and_return(body):
  """body == [ (printf | atomic_or | if static: printf)*, return ]"""
  if not body or not isinstance(body[-1], ast.Return) or body[-1].value is not None:
    return False
  for st in body[:-1]:
    if isinstance(st, ast.Expr) and (_is_call(st.value, "printf") or _is_call(st.value, "atomic_or")):
      continue
    if isinstance(st, ast.If) and _is_static_test(st.test) and all(isinstance(x, ast.Expr) and _is_call(x.value, "printf") for x in st.body) and not st.orelse:
      continue
    return False
  return True


class Ev:
  def __init__(self, kind, node, ctx, **kw):
    self.kind, self.node, self.ctx = kind, node, ctx
    self.__dict__.update(kw)

  def __repr__(self):
    return f"<{self.kind} L{self.node.lineno} {[c[0] for c in self.ctx]}>"


TRACKED_STORES = (META_ADR, META_RNZ, DEFER)


def linearise(body, ctx=()):
  """Events in textual order. ctx = tuple of enclosing constructs:
  ('static', text) | ('if', test) | ('else', test) | ('for', node) | ('while', node)."""
  out = []
  for st in body:
    if isinstance(st, ast.If):
      if _only_flag_and_return(st.body) and not st.orelse:
        out.append(Ev("guard", st, ctx, test=st.test))
        continue
      kind = "static" if _is_static_test(st.test) else "if"
      out += linearise(st.body, ctx + ((kind, st.test),))
      if st.orelse:
        out += linearise(st.orelse, ctx + (("static-else" if kind == "static" else "else", st.test),))
      continue
    if isinstance(st, (ast.For, ast.While)):
      out += linearise(st.body, ctx + (("for" if isinstance(st, ast.For) else "while", st),))
      if st.orelse:
        raise ExtractError(f"line {st.lineno}: loop with else")
      continue
    if isinstance(st, ast.Return):
      out.append(Ev("return", st, ctx))
      continue
    if isinstance(st, (ast.With, ast.Try, ast.Match)):
      raise ExtractError(f"line {st.lineno}: unsupported statement {type(st).__name__}")
    calls = _find_calls(st, "atomic_add")
    if calls:
      if len(calls) != 1:
        raise ExtractError(f"line {st.lineno}: several atomic_add in one statement")
      c = calls[0]
      if isinstance(st, ast.Assign) and st.value is c and len(st.targets) == 1 and isinstance(st.targets[0], ast.Name):
        var = st.targets[0].id
      elif isinstance(st, ast.Expr) and st.value is c:
        var = None
      else:
        raise ExtractError(f"line {st.lineno}: atomic_add result used in an expression: {src(st)}")
      if len(c.args) != 3 or not isinstance(c.args[0], ast.Name):
        raise ExtractError(f"line {st.lineno}: atomic_add argument shape: {src(c)}")
      out.append(Ev("alloc", st, ctx, var=var, counter=c.args[0].id, index=src(c.args[1]), amount=c.args[2]))
      continue
    if isinstance(st, ast.Assign) and len(st.targets) == 1 and isinstance(st.targets[0], ast.Subscript):
      t = st.targets[0]
      if isinstance(t.value, ast.Name):
        out.append(Ev("store", st, ctx, array=t.value.id, index=t.slice, value=st.value))
        continue
    if isinstance(st, ast.Assign) and len(st.targets) == 1 and isinstance(st.targets[0], ast.Name):
      out.append(Ev("assign", st, ctx, var=st.targets[0].id, value=st.value))
      continue
    if isinstance(st, ast.AugAssign) and isinstance(st.target, ast.Name):
      out.append(Ev("augassign", st, ctx, var=st.target.id, op=st.op, value=st.value))
      continue
    if isinstance(st, ast.Expr) and isinstance(st.value, ast.Call):
      f = st.value.func
      nm = f.id if isinstance(f, ast.Name) else (f.attr if isinstance(f, ast.Attribute) else "?")
      out.append(Ev("call", st, ctx, name=nm))
      continue
  return out


# ---- comparison normalisation ---------------------------------------------------
def _const_int(n):
  if isinstance(n, ast.Constant) and isinstance(n.value, int) and not isinstance(n.value, bool):
    return n.value
  if isinstance(n, ast.UnaryOp) and isinstance(n.op, ast.USub) and isinstance(n.operand, ast.Constant) and isinstance(n.operand.value, int):
    return -n.operand.value
  return None


def _cap_plus_off(n, capname):
  """n == cap | cap - c | cap + c  -> off (int) else None"""
  if isinstance(n, ast.Name) and n.id == capname:
    return 0
  if isinstance(n, ast.BinOp) and isinstance(n.left, ast.Name) and n.left.id == capname:
    c = _const_int(n.right)
    if c is not None:
      if isinstance(n.op, ast.Sub):
        return -c
      if isinstance(n.op, ast.Add):
        return c
  return None


def norm_guard(test, capname, negate=False):
  """Normalise `L OP cap+off` to ('CGe'|'CGt', off, L) meaning  *dropped iff L CMP cap + off*.
  With negate=True the test is the condition under which the slot IS written."""
  if not (isinstance(test, ast.Compare) and len(test.ops) == 1 and len(test.comparators) == 1):
    raise ExtractError(f"line {test.lineno}: guard is not a single comparison: {src(test)}")
  op, L, R = test.ops[0], test.left, test.comparators[0]
  off = _cap_plus_off(R, capname)
  if off is None:
    raise ExtractError(f"line {test.lineno}: guard right-hand side is not {capname} +/- const: {src(test)}")
  # integers:  a < b  <=>  not (a >= b);   a <= b <=> not (a > b)
  if not negate:
    if isinstance(op, ast.GtE):
      return "CGe", off, L
    if isinstance(op, ast.Gt):
      return "CGt", off, L
  else:
    if isinstance(op, ast.Lt):
      return "CGe", off, L
    if isinstance(op, ast.LtE):
      return "CGt", off, L
  raise ExtractError(f"line {test.lineno}: unsupported guard operator in {src(test)} (negate={negate})")


def _name(n):
  return n.id if isinstance(n, ast.Name) else None


def _mul_parts(n):
  """k * v / v * k / v  ->  set of factor texts"""
  if isinstance(n, ast.BinOp) and isinstance(n.op, ast.Mult):
    return sorted([src(n.left), src(n.right)])
  return [src(n)]


# ---- row builders (constraint.py) -----------------------------------------------
def _kernel_defs(tree):
  """(public name, FunctionDef holding the body) for every kernel/func of a module:
  @cache_kernel factories yield their inner @wp.kernel def under the factory's name."""
  out = []
  for st in tree.body:
    if not isinstance(st, ast.FunctionDef):
      continue
    decos = [src(d) for d in st.decorator_list]
    if any(d.startswith("cache_kernel") for d in decos):
      inner = [x for x in st.body if isinstance(x, ast.FunctionDef)]
      for k in inner:
        if any("wp.kernel" in src(d) for d in k.decorator_list):
          out.append((st.name, k))
        elif _find_calls(k, "atomic_add"):
          raise ExtractError(f"{st.name}: nested non-kernel def with atomic_add")
    elif any(d.startswith("wp.kernel") or d.startswith("wp.func") for d in decos):
      out.append((st.name, st))
    else:
      # plain python function (host code / factories without cache_kernel)
      for k in ast.walk(st):
        if isinstance(k, ast.FunctionDef) and k is not st and any("wp.kernel" in src(d) or "wp.func" in src(d) for d in k.decorator_list):
          out.append((st.name, k))
  return out


def _in_loop(ctx):
  return any(c[0] in ("for", "while") for c in ctx)


def _sparse_ctx(ctx):
  return any(c[0] == "static" and "sparse" in src(c[1]).lower() and "newton" not in src(c[1]).lower() for c in ctx)


def analyse_row_builder(name, fn):
  evs = linearise(fn.body)
  allocs = [e for e in evs if e.kind == "alloc"]
  unknown = [e for e in allocs if e.counter not in ("nefc_out", "efc_nnz_out") and e.counter not in TYPE_COUNTERS and e.counter not in AUX_COUNTERS]
  if unknown:
    raise ExtractError(f"{name}: atomic_add on unknown counter {unknown[0].counter} (line {unknown[0].node.lineno})")
  rows_a = [e for e in allocs if e.counter == "nefc_out"]
  if len(rows_a) != 1:
    raise ExtractError(f"{name}: expected exactly one atomic_add on nefc_out, found {len(rows_a)}")
  ra = rows_a[0]
  if ra.var is None:
    raise ExtractError(f"{name}: nefc_out allocation result unused")
  if ra.index != "worldid":
    raise ExtractError(f"{name}: nefc_out indexed by {ra.index}")
  k = _const_int(ra.amount)
  dynamic = k is None
  if dynamic and not isinstance(ra.amount, ast.Name):
    raise ExtractError(f"{name}: row amount is neither constant nor a name: {src(ra.amount)}")
  if not dynamic and k <= 0:
    raise ExtractError(f"{name}: non-positive row amount {k}")
  # typed counter: same amount, same world, immediately before the row allocation
  tca = [e for e in allocs if e.counter in TYPE_COUNTERS]
  if len(tca) > 1:
    raise ExtractError(f"{name}: several typed counters")
  tcounter = 3
  if tca:
    t = tca[0]
    if src(t.amount) != src(ra.amount) or t.index != "worldid" or t.ctx != ra.ctx or evs.index(t) + 1 != evs.index(ra):
      raise ExtractError(f"{name}: typed counter {t.counter} not bumped together with nefc_out by the same amount")
    tcounter = TYPE_COUNTERS[t.counter]
  loop = _in_loop(ra.ctx)
  i_ra = evs.index(ra)
  after = evs[i_ra + 1 :]
  # ---- row guard ----
  perrow = False
  g = next((e for e in after if e.kind in ("guard", "alloc", "store", "call")), None)
  rowvar = ra.var
  if g is not None and g.kind == "guard" and rowvar in {n.id for n in ast.walk(g.test) if isinstance(n, ast.Name)}:
    cmp_, off, L = norm_guard(g.test, "njmax_in")
    if _name(L) != rowvar:
      raise ExtractError(f"{name}: row guard left side is {src(L)}, expected {rowvar}")
    if g.ctx != ra.ctx:
      raise ExtractError(f"{name}: row guard not in the same block as the allocation")
    if dynamic:
      raise ExtractError(f"{name}: block guard with a dynamic row count")
    i_after_guard = evs.index(g)
  else:
    # per-row shape:  for dim in range(<amount>): efcid = base + dim; if efcid >= njmax: addr=-1 else: addr=efcid
    perrow = True
    a = next((e for e in after if e.kind == "assign" and isinstance(e.value, ast.BinOp) and isinstance(e.value.op, ast.Add) and _name(e.value.left) == rowvar), None)
    if a is None or not a.ctx or a.ctx[-1][0] != "for" or a.ctx[:-1] != ra.ctx:
      raise ExtractError(f"{name}: no row guard after the nefc_out allocation and no per-row loop")
    loopn = a.ctx[-1][1]
    if not (_is_call(loopn.iter, "range") and len(loopn.iter.args) == 1 and src(loopn.iter.args[0]) == src(ra.amount) and _name(loopn.target) == _name(a.value.right)):
      raise ExtractError(f"{name}: per-row loop does not range over the allocated amount")
    ifs = [s for s in loopn.body if isinstance(s, ast.If)]
    if len(ifs) != 1 or loopn.body[0] is not a.node or len(loopn.body) != 2:
      raise ExtractError(f"{name}: per-row loop body shape")
    cmp_, off, L = norm_guard(ifs[0].test, "njmax_in")
    if _name(L) != a.var:
      raise ExtractError(f"{name}: per-row guard tests {src(L)}")
    drop_st = [e for e in linearise(ifs[0].body) if e.kind == "store"]
    keep_st = [e for e in linearise(ifs[0].orelse) if e.kind == "store"]
    if not (len(drop_st) == 1 and drop_st[0].array == DEFER and _const_int(drop_st[0].value) == -1):
      raise ExtractError(f"{name}: dropped row must store -1 into {DEFER}")
    if not any(e.array == DEFER and _name(e.value) == a.var for e in keep_st):
      raise ExtractError(f"{name}: kept row must store its efcid into {DEFER}")
    rowvar_loop = a.var
    last_in_loop = [e for e in after if e.ctx and e.ctx[: len(a.ctx)] == a.ctx]
    i_after_guard = evs.index(last_in_loop[-1])
  deferred = any(e.kind == "store" and e.array == DEFER for e in evs)
  if deferred != perrow:
    raise ExtractError(f"{name}: deferred rows without per-row guard (or the converse)")
  if perrow and loop:
    raise ExtractError(f"{name}: per-row guard inside a loop")
  # no tracked store may precede the row guard
  for e in evs[:i_after_guard]:
    if e.kind == "store" and e.array in (META_ADR, META_RNZ):
      raise ExtractError(f"{name}: metadata stored before the row guard (line {e.node.lineno})")
  rest = evs[i_after_guard + 1 :]
  # ---- nnz allocation ----
  na = [e for e in allocs if e.counter == "efc_nnz_out"]
  has_nnz = bool(na)
  ncmp, noff, adr_before, rnz_before, rnz_exact = "CGt", 0, False, False, False
  if len(na) > 1:
    raise ExtractError(f"{name}: several efc_nnz_out allocations")
  meta = [e for e in rest if e.kind == "store" and e.array in (META_ADR, META_RNZ)]
  if not has_nnz and meta:
    raise ExtractError(f"{name}: row metadata stored without an efc_nnz_out allocation")
  if has_nnz:
    z = na[0]
    if z not in rest or z.var is None or z.index != "worldid":
      raise ExtractError(f"{name}: efc_nnz_out allocation shape")
    if not _sparse_ctx(z.ctx):
      raise ExtractError(f"{name}: efc_nnz_out allocation not under wp.static(is_sparse)")
    if _in_loop(z.ctx) != loop:
      raise ExtractError(f"{name}: nnz allocation and row allocation in different loops")
    iz = rest.index(z)
    zg = next((e for e in rest[iz + 1 :] if e.kind in ("guard", "alloc") or (e.kind == "store" and e.array not in (META_ADR, META_RNZ))), None)
    if zg is None or zg.kind != "guard" or zg.ctx != z.ctx:
      raise ExtractError(f"{name}: efc_nnz_out allocation is not followed by its guard")
    ncmp, noff, L = norm_guard(zg.test, "njmax_nnz_in")
    if not (isinstance(L, ast.BinOp) and isinstance(L.op, ast.Add) and _name(L.left) == z.var and src(L.right) == src(z.amount)):
      raise ExtractError(f"{name}: nnz guard `{src(zg.test)}` does not test old + allocated amount `{src(z.amount)}`")
    izg = rest.index(zg)
    # per-row requested nnz P with amount == rows * P
    amt = z.amount
    rows_txt = src(ra.amount)
    if isinstance(amt, ast.BinOp) and isinstance(amt.op, ast.Mult) and rows_txt in (src(amt.left), src(amt.right)):
      P = src(amt.right) if src(amt.left) == rows_txt else src(amt.left)
    elif rows_txt == "1":
      P = src(amt)
    else:
      raise ExtractError(f"{name}: nnz amount `{src(amt)}` is not rows({rows_txt}) * per-row count")
    adr_st = [e for e in meta if e.array == META_ADR]
    rnz_st = [e for e in meta if e.array == META_RNZ]
    if not adr_st or not rnz_st:
      raise ExtractError(f"{name}: sparse builder without rowadr/rownnz stores")

    def position(sts, what):
      pos = {rest.index(e) < izg for e in sts}
      if len(pos) != 1:
        raise ExtractError(f"{name}: {what} stored both before and after the nnz guard")
      before = pos.pop()
      if before and any(rest.index(e) < iz for e in sts) and what == "rowadr":
        raise ExtractError(f"{name}: rowadr stored before the allocation that defines it")
      return before

    adr_before = position(adr_st, "rowadr")
    rnz_before = position(rnz_st, "rownnz")
    # stored values: rownnz == P ; rowadr == old + i * P for row i
    rnz_exact = all(src(e.value) == P for e in rnz_st)
    nrows_stored = set()
    for e in adr_st:
      v = e.value
      if _name(v) == z.var:
        mult = "0"
      elif isinstance(v, ast.BinOp) and isinstance(v.op, ast.Add) and _name(v.left) == z.var:
        parts = _mul_parts(v.right)
        if P not in parts:
          raise ExtractError(f"{name}: rowadr value `{src(v)}` is not old + i*{P}")
        parts.remove(P)
        mult = parts[0] if parts else "1"
      else:
        raise ExtractError(f"{name}: rowadr value `{src(v)}`")
      nrows_stored.add(mult)
    if perrow:
      # stores sit in `for dim in range(amount): efcid = base+dim; if efcid < njmax:` -> same per-row guard
      for e in adr_st + rnz_st:
        c = e.ctx[len(z.ctx) :]
        if not (len(c) == 2 and c[0][0] == "for" and c[1][0] == "if"):
          raise ExtractError(f"{name}: per-row metadata store context")
        if src(c[0][1].iter) != f"range({rows_txt})":
          raise ExtractError(f"{name}: per-row metadata loop range")
        c2, o2, L2 = norm_guard(c[1][1], "njmax_in", negate=True)
        if (c2, o2) != (cmp_, off):
          raise ExtractError(f"{name}: metadata row guard differs from the row guard")
      if nrows_stored != {_name(c[0][1].target)}:
        raise ExtractError(f"{name}: per-row rowadr multiplier {nrows_stored}")
    else:
      want = {str(i) for i in range(k)}
      if nrows_stored != want or len(adr_st) != k or len(rnz_st) != k:
        raise ExtractError(f"{name}: metadata stored for rows {sorted(nrows_stored)} (x{len(adr_st)}/{len(rnz_st)}), block has {k}")
  # ---- rows produced here (or deferred) after all guards ----
  if not deferred:
    rw = [e for e in rest if e.kind == "call" and e.name == "_efc_row"]
    if not rw:
      raise ExtractError(f"{name}: no _efc_row call after the guards")
    if not dynamic and len(rw) != k and not all(_in_loop(e.ctx) for e in rw):
      raise ExtractError(f"{name}: {len(rw)} _efc_row calls for a block of {k}")
  # any other early return between allocation and row write would drop silently
  for e in rest:
    if e.kind in ("guard", "return") and not (has_nnz and e is zg):
      raise ExtractError(f"{name}: unexplained early return after the allocation (line {e.node.lineno})")
  aux = sorted({e.counter for e in allocs if e.counter in AUX_COUNTERS})
  # rows claimed by the Newton block list entry (efc_jtdaj_nrow) vs rows allocated
  bl = [e for e in evs if e.kind == "store" and e.array == "efc_jtdaj_nrow_out"]
  if len(bl) > 1:
    raise ExtractError(f"{name}: several efc_jtdaj_nrow stores")
  block_nrow = src(bl[0].value) if bl else None
  if block_nrow is None:
    block_ok = True
  elif perrow:
    block_ok = block_nrow == f"wp.min({src(ra.amount)}, njmax_in - {ra.var})"
  else:
    block_ok = block_nrow == str(k)
  return {
    "block_nrow": block_nrow, "block_ok": block_ok,
    "name": name, "counter": "nefc_out", "cap": "njmax", "tcounter": tcounter, "rows": 0 if dynamic else k,
    "perrow": perrow, "cmp": cmp_, "off": off, "loop": loop, "deferred": deferred, "has_nnz": has_nnz,
    "ncmp": ncmp, "noff": noff, "adr_before": adr_before, "rnz_before": rnz_before, "rnz_exact": rnz_exact,
    "aux": aux, "line": fn.lineno, "guard_text": src(g.test) if not perrow else src(ifs[0].test),
  }  # fmt: skip


# ---- slot allocators ---------------------------------------------------------------
def analyse_slot(name, fn, counter, cap):
  """One atomic_add(counter, 0, 1); slot written iff the guard lets it through."""
  evs = linearise(fn.body)
  allocs = [e for e in evs if e.kind == "alloc"]
  if len(allocs) != 1 or allocs[0].counter != counter or _const_int(allocs[0].amount) != 1 or allocs[0].var is None:
    raise ExtractError(f"{name}: expected one atomic_add({counter}, _, 1)")
  a = allocs[0]
  if _in_loop(a.ctx):
    raise ExtractError(f"{name}: allocation inside a loop")
  rest = evs[evs.index(a) + 1 :]
  nxt = rest[0] if rest else None
  if nxt is not None and nxt.kind == "guard":
    cmp_, off, L = norm_guard(nxt.test, cap + "_in")
    if _name(L) != a.var:
      raise ExtractError(f"{name}: guard tests {src(L)}")
    for e in rest[1:]:
      if e.kind == "guard":
        raise ExtractError(f"{name}: second early return after the allocation")
    return _slot(name, counter, cap, cmp_, off, fn, src(nxt.test))
  # positive form: if var < cap: <stores>  and nothing indexed by var outside
  stores = [e for e in rest if e.kind == "store"]
  if not stores:
    raise ExtractError(f"{name}: allocation without stores")
  tests = {id(e.ctx[len(a.ctx)][1]): e.ctx[len(a.ctx)] for e in stores if len(e.ctx) > len(a.ctx)}
  if len(tests) != 1 or any(len(e.ctx) <= len(a.ctx) for e in stores):
    raise ExtractError(f"{name}: stores not under a single capacity test")
  (kind, test), = tests.values()
  if kind != "if":
    raise ExtractError(f"{name}: stores under {kind}")
  cmp_, off, L = norm_guard(test, cap + "_in", negate=True)
  if _name(L) != a.var:
    raise ExtractError(f"{name}: guard tests {src(L)}")
  return _slot(name, counter, cap, cmp_, off, fn, src(test))


def _slot(name, counter, cap, cmp_, off, fn, text):
  return {
    "name": name, "counter": counter, "cap": cap, "tcounter": 3, "rows": 1, "perrow": False, "cmp": cmp_, "off": off,
    "loop": False, "deferred": False, "has_nnz": False, "ncmp": "CGt", "noff": 0, "adr_before": False,
    "rnz_before": False, "rnz_exact": False, "aux": [], "line": fn.lineno, "guard_text": text,
  }  # fmt: skip


def analyse_serial(name, fn, cap, bit):
  """_compact_dofs:  if count < cap: stores ; count += 1   ...   if count > cap: overflow |= bit"""
  evs = linearise(fn.body)
  incs = [e for e in evs if e.kind == "augassign" and isinstance(e.op, ast.Add)]
  if len(incs) != 1 or _const_int(incs[0].value) != 1:
    raise ExtractError(f"{name}: expected one `count += 1`")
  cnt = incs[0].var
  stores = [e for e in evs if e.kind == "store" and e.ctx and e.ctx[: len(incs[0].ctx)] == incs[0].ctx and len(e.ctx) == len(incs[0].ctx) + 1]
  if not stores:
    raise ExtractError(f"{name}: no guarded stores next to the counter")
  tests = {id(e.ctx[-1][1]) for e in stores}
  if len(tests) != 1 or stores[0].ctx[-1][0] != "if":
    raise ExtractError(f"{name}: stores not under one test")
  if evs.index(stores[-1]) > evs.index(incs[0]):
    raise ExtractError(f"{name}: store after the increment")
  cmp_, off, L = norm_guard(stores[0].ctx[-1][1], cap + "_in", negate=True)
  if _name(L) != cnt:
    raise ExtractError(f"{name}: guard tests {src(L)}")
  # the flag: a top-level `if count > cap:` whose body ORs the bit into overflow_out
  flagged = None
  for st in fn.body:
    if isinstance(st, ast.If) and isinstance(st.test, ast.Compare) and _name(st.test.left) == cnt:
      c2, o2, _ = norm_guard(st.test, cap + "_in")
      if _sets_bit(st.body, bit):
        flagged = (c2, o2)
  if flagged is None:
    raise ExtractError(f"{name}: no `if {cnt} > {cap}_in: overflow |= {bit}`")
  b = _slot(name, cnt, cap, cmp_, off, fn, src(stores[0].ctx[-1][1]))
  return b, {"counter": cnt, "cap": cap, "cmp": flagged[0], "off": flagged[1], "bit": bit, "kind": "counter", "where": name}


def _sets_bit(body, bit):
  for st in body:
    if isinstance(st, ast.Assign) and isinstance(st.targets[0], ast.Subscript) and _name(st.targets[0].value) == "overflow_out":
      v = st.value
      if isinstance(v, ast.BinOp) and isinstance(v.op, ast.BitOr) and src(v.left) == src(st.targets[0]) and src(v.right).endswith("OverflowType." + bit):
        return True
    if isinstance(st, ast.Expr) and _is_call(st.value, "atomic_or") and src(st.value.args[-1]).endswith("OverflowType." + bit + (")" if "static" in src(st.value.args[-1]) else "")):
      return True
  return False


def _bit_of(body):
  for bit in ("NEFC", "NJMAX_NNZ", "BROADPHASE", "NARROWPHASE", "NVMAX"):
    if _sets_bit(body, bit):
      return bit
  return None


def analyse_next_time_launch(tree):
  """forward._advance launches _next_time_builder(...) unconditionally (the probes run on every step)."""
  adv = next((s for s in tree.body if isinstance(s, ast.FunctionDef) and s.name == "_advance"), None)
  if adv is None:
    raise ExtractError("forward.py: _advance not found")
  ls = [n for n in ast.walk(adv) if _is_call(n, "launch") and n.args and _is_call(n.args[0], "_next_time_builder")]
  if len(ls) != 1:
    raise ExtractError(f"forward._advance: _next_time launched {len(ls)} times")
  return guard_path(adv, ls[0])


def analyse_next_time(tree):
  fac = next((s for s in tree.body if isinstance(s, ast.FunctionDef) and s.name == "_next_time_builder"), None)
  if fac is None:
    raise ExtractError("forward.py: _next_time_builder not found")
  k = next((s for s in fac.body if isinstance(s, ast.FunctionDef)), None)
  if k is None:
    raise ExtractError("_next_time_builder: no inner kernel")
  local = {}  # name -> source array (counter) for `x = arr_in[...]`
  probes = []
  for st in k.body:
    if isinstance(st, ast.Assign) and isinstance(st.targets[0], ast.Name) and isinstance(st.value, ast.Subscript) and isinstance(st.value.value, ast.Name):
      local[st.targets[0].id] = (st.value.value.id, src(st.value.slice))
    if not isinstance(st, ast.If):
      continue
    t = st.test
    if not (isinstance(t, ast.Compare) and _name(t.left) in local):
      raise ExtractError(f"_next_time: unrecognised test {src(t)}")
    arr, idx = local[_name(t.left)]
    cap = next((c for c in ("njmax", "naconmax", "njmax_nnz") if _cap_plus_off(t.comparators[0], c + "_in") is not None), None)
    if cap is None:
      raise ExtractError(f"_next_time: unknown capacity in {src(t)}")
    cmp_, off, _ = norm_guard(t, cap + "_in")
    bit = _bit_of(st.body)
    if bit is None:
      raise ExtractError(f"_next_time: test {src(t)} sets no known overflow bit")
    probes.append({"counter": arr.replace("_in", ""), "cap": cap, "cmp": cmp_, "off": off, "bit": bit, "kind": "counter", "where": "_next_time", "index": idx})
    if st.orelse:
      if len(st.orelse) != 1 or not isinstance(st.orelse[0], ast.If) or st.orelse[0].orelse:
        raise ExtractError("_next_time: else-branch shape")
      e = st.orelse[0]
      # elif nefc > 0 and is_sparse:  efcid = min(nefc, njmax) - 1; x = rowadr[w, efcid] + rownnz[w, efcid]; if x > njmax_nnz
      want = f"{_name(t.left)} > 0 and is_sparse"
      if src(e.test) != want:
        raise ExtractError(f"_next_time: elif test `{src(e.test)}`, expected `{want}`")
      body = e.body
      if len(body) != 3:
        raise ExtractError("_next_time: nnz probe body shape")
      a0, a1, i2 = body
      if not (isinstance(a0, ast.Assign) and src(a0.value) == f"wp.min({_name(t.left)}, njmax_in) - 1"):
        raise ExtractError(f"_next_time: nnz probe row index `{src(a0)}`")
      ev = _name(a0.targets[0])
      if not (isinstance(a1, ast.Assign) and src(a1.value) == f"efc_J_rowadr_in[worldid, {ev}] + efc_J_rownnz_in[worldid, {ev}]"):
        raise ExtractError(f"_next_time: nnz probe value `{src(a1)}`")
      if not (isinstance(i2, ast.If) and _name(i2.test.left) == _name(a1.targets[0])):
        raise ExtractError("_next_time: nnz probe test")
      c2, o2, _ = norm_guard(i2.test, "njmax_nnz_in")
      b2 = _bit_of(i2.body)
      if b2 != "NJMAX_NNZ":
        raise ExtractError("_next_time: nnz probe sets no NJMAX_NNZ bit")
      probes.append({"counter": "last_row_meta", "cap": "njmax_nnz", "cmp": c2, "off": o2, "bit": b2, "kind": "lastrow", "where": "_next_time", "index": "elif"})
  return probes


def guard_path(fn, target):
  """Tests of the `if` statements enclosing `target` inside function `fn` (else branches as `not (...)`)."""
  def rec(body, path):
    for st in body:
      if st is target or any(n is target for n in ast.walk(st)) and not isinstance(st, (ast.If, ast.For, ast.While, ast.With)):
        return path
      if isinstance(st, ast.If):
        if any(n is target for b in st.body for n in ast.walk(b)):
          return rec(st.body, path + [src(st.test)])
        if any(n is target for b in st.orelse for n in ast.walk(b)):
          return rec(st.orelse, path + [f"not ({src(st.test)})"])
      elif isinstance(st, (ast.For, ast.While, ast.With)):
        if any(n is target for b in st.body for n in ast.walk(b)):
          return rec(st.body, path + [f"<{type(st).__name__.lower()}>"])
    return None
  r = rec(fn.body, [])
  if r is None:
    raise ExtractError(f"{fn.name}: cannot locate statement at line {getattr(target, 'lineno', '?')}")
  return r


def analyse_nnz_fix(tree):
  """Repairs of the njmax_nnz class inside constraint.py (all absent in the original code):
  prezero  `d.efc.J_rownnz.zero_()` + `d.efc.J_rowadr.zero_()` in make_constraint before the builders;
  flag     a kernel launched after the builders that ORs NJMAX_NNZ when the nnz counter > njmax_nnz;
  clamp    the same kernel sets rownnz = 0 for rows < min(nefc, njmax) with rowadr + rownnz > njmax_nnz."""
  mc = next((s for s in tree.body if isinstance(s, ast.FunctionDef) and s.name == "make_constraint"), None)
  if mc is None:
    raise ExtractError("constraint.py: make_constraint not found")
  launches = [n for n in ast.walk(mc) if _is_call(n, "launch") or _is_call(n, "launch_tiled")]
  first_builder = min((n.lineno for n in launches if n.args and isinstance(n.args[0], ast.Call)), default=None)
  zeroed, znodes = {}, []
  for n in ast.walk(mc):
    if _is_call(n, "zero_") and isinstance(n.func, ast.Attribute):
      t = src(n.func.value)
      if t in ("d.efc.J_rownnz", "d.efc.J_rowadr"):
        zeroed[t] = n.lineno
        znodes.append(n)
  zguards = [guard_path(mc, n) for n in znodes]
  if len(zeroed) == 1:
    raise ExtractError(f"make_constraint: only {list(zeroed)} is zeroed")
  prezero = len(zeroed) == 2
  if prezero and (first_builder is None or max(zeroed.values()) > first_builder):
    raise ExtractError("make_constraint: row metadata zeroed after a builder launch")
  # kernels that OR NJMAX_NNZ
  flaggers = []
  for name, fn in _kernel_defs(tree):
    for c in _find_calls(fn, "atomic_or"):
      if "NJMAX_NNZ" in src(c):
        flaggers.append((name, fn))
    for st in ast.walk(fn):
      if isinstance(st, ast.Assign) and "NJMAX_NNZ" in src(st.value) and "overflow" in src(st.targets[0]):
        flaggers.append((name, fn))
  if not flaggers:
    return {"flag": False, "prezero": prezero, "clamp": False, "guards": {"zero": zguards, "launch": None}, "sparse_only": all(g == ["m.is_sparse"] for g in zguards)}
  if len(flaggers) != 1:
    raise ExtractError(f"constraint.py: several kernels set NJMAX_NNZ: {[n for n, _ in flaggers]}")
  name, fn = flaggers[0]
  body = [st for st in fn.body if not (isinstance(st, ast.Expr) and isinstance(st.value, ast.Constant))]
  # worldid, efcid = wp.tid(); cnt = efc_nnz_in[worldid]; if cnt <= njmax_nnz_in: return; if efcid == 0: ...or...; if efcid < min(nefc, njmax): if adr + rnz > njmax_nnz: rnz = 0
  if len(body) not in (4, 5):
    raise ExtractError(f"{name}: unrecognised shape ({len(body)} statements)")
  tid, cnt, ret, orr = body[:4]
  if not (isinstance(tid, ast.Assign) and _is_call(tid.value, "tid") and src(tid.targets[0]) in ("(worldid, efcid)", "worldid, efcid")):
    raise ExtractError(f"{name}: thread ids")
  if not (isinstance(cnt, ast.Assign) and src(cnt.value) == "efc_nnz_in[worldid]"):
    raise ExtractError(f"{name}: counter read `{src(cnt)}`")
  cv = _name(cnt.targets[0])
  if not (isinstance(ret, ast.If) and _only_flag_and_return(ret.body) and not ret.orelse and src(ret.test) == f"{cv} <= njmax_nnz_in"):
    raise ExtractError(f"{name}: expected `if {cv} <= njmax_nnz_in: return`, found `{src(ret.test) if isinstance(ret, ast.If) else src(ret)}`")
  if not (isinstance(orr, ast.If) and src(orr.test) == "efcid == 0" and not orr.orelse and _sets_bit([s for s in orr.body if not isinstance(s, ast.If)], "NJMAX_NNZ")):
    raise ExtractError(f"{name}: NJMAX_NNZ not set by exactly one thread per world")
  clamp = False
  if len(body) == 5:
    cl = body[4]
    want_outer = "efcid < wp.min(nefc_in[worldid], njmax_in)"
    ok = isinstance(cl, ast.If) and src(cl.test) == want_outer and not cl.orelse and len(cl.body) == 1 and isinstance(cl.body[0], ast.If)
    if ok:
      inner = cl.body[0]
      ok = (
        src(inner.test) == "efc_J_rowadr_in[worldid, efcid] + efc_J_rownnz_out[worldid, efcid] > njmax_nnz_in"
        and not inner.orelse and len(inner.body) == 1 and src(inner.body[0]) == "efc_J_rownnz_out[worldid, efcid] = 0"
      )
    if not ok:
      raise ExtractError(f"{name}: unrecognised clamp `{src(cl)[:120]}`")
    clamp = True
  # launched once, after every builder, over (nworld, njmax), under `if m.is_sparse`
  mine = [n for n in launches if n.args and _name(n.args[0]) == name]
  if len(mine) != 1:
    raise ExtractError(f"make_constraint: {name} launched {len(mine)} times")
  if any(n.lineno > mine[0].lineno for n in launches if n is not mine[0]):
    raise ExtractError(f"make_constraint: {name} is not the last launch")
  kw = {k.arg: src(k.value) for k in mine[0].keywords}
  if kw.get("dim") != "(d.nworld, d.njmax)":
    raise ExtractError(f"make_constraint: {name} launched with dim={kw.get('dim')}")
  params = [a.arg for a in fn.args.args]
  actual = [src(x) for x in ast.literal_eval("[]")] if False else None
  ins = next((k.value for k in mine[0].keywords if k.arg == "inputs"), None)
  outs = next((k.value for k in mine[0].keywords if k.arg == "outputs"), None)
  if ins is None or outs is None:
    raise ExtractError(f"make_constraint: {name} launch without inputs/outputs")
  actual = dict(zip(params, [src(x) for x in list(ins.elts) + list(outs.elts)]))
  expect = {"njmax_in": "d.njmax", "njmax_nnz_in": "d.njmax_nnz", "nefc_in": "d.nefc", "efc_J_rowadr_in": "d.efc.J_rowadr", "efc_nnz_in": "efc_nnz", "efc_J_rownnz_out": "d.efc.J_rownnz", "overflow_out": "d.overflow"}
  for k, v in expect.items():
    if actual.get(k) != v:
      raise ExtractError(f"make_constraint: {name} argument {k} = {actual.get(k)}, expected {v}")
  lguard = guard_path(mc, mine[0])
  sparse_only = lguard == ["m.is_sparse"] and all(g == ["m.is_sparse"] for g in zguards)
  return {"flag": True, "prezero": prezero, "clamp": clamp, "guards": {"zero": zguards, "launch": lguard}, "sparse_only": sparse_only}


def analyse_pair_emitters(tree):
  """Broadphase kernels of collision_driver.py that emit candidate pairs through _add_geom_pair.
  The counter ncollision_out is the ONLY evidence of a broadphase overflow (_next_time tests
  ncollision > naconmax), so an emitter must reach _add_geom_pair for every candidate: inside an
  emitter the counter and the capacity may appear only as arguments handed to a call; any test,
  loop exit or arithmetic on them raises (fail closed)."""
  emitters = []
  for name, fn in _kernel_defs(tree):
    if name == "_add_geom_pair":
      continue
    calls = _find_calls(fn, "_add_geom_pair")
    if not calls:
      continue
    allowed = set()
    for c in ast.walk(fn):
      if isinstance(c, ast.Call):
        for a in c.args:
          if isinstance(a, ast.Name):
            allowed.add(id(a))
    for n in ast.walk(fn):
      if isinstance(n, ast.Name) and n.id in ("ncollision_out", "naconmax_in") and id(n) not in allowed:
        raise ExtractError(f"{name}: `{n.id}` used outside a call argument (line {n.lineno}): capacity-dependent control flow in a pair emitter")
    for c in calls:
      args = [src(a) for a in c.args]
      if "ncollision_out" not in args or "naconmax_in" not in args:
        raise ExtractError(f"{name}: _add_geom_pair called without the kernel's counter / capacity (line {c.lineno})")
    emitters.append({"name": name, "line": fn.lineno, "calls": len(calls)})
  if not emitters:
    raise ExtractError("collision_driver.py: no kernel calls _add_geom_pair")
  return emitters


def analyse_collision_host(tree):
  """collision(m, d): does the host function return before any allocation when naconmax == 0 ?
  (then needed contacts are dropped without any counter being bumped)"""
  fn = next((s for s in tree.body if isinstance(s, ast.FunctionDef) and s.name == "collision"), None)
  if fn is None:
    raise ExtractError("collision_driver.py: collision() not found")
  skip = False
  for st in fn.body:
    if isinstance(st, ast.If) and any(isinstance(x, ast.Return) for x in st.body):
      names = {src(n) for n in ast.walk(st.test) if isinstance(n, ast.Compare)}
      for c in names:
        if "naconmax" in c:
          if c.replace(" ", "") != "d.naconmax==0":
            raise ExtractError(f"collision(): unrecognised capacity test `{c}` guarding an early return")
          skip = True
    elif any(isinstance(x, ast.Return) for x in ast.walk(st)) and "naconmax" in src(st):
      raise ExtractError("collision(): capacity-dependent return in an unrecognised position")
  return skip


# ---- driver ------------------------------------------------------------------------
def _parse(fname):
  with open(os.path.join(SRC, fname)) as fh:
    return ast.parse(fh.read(), filename=fname)


def extract():
  builders, probes = [], []
  ct = _parse("constraint.py")
  for name, fn in _kernel_defs(ct):
    calls = _find_calls(fn, "atomic_add")
    counters = {c.args[0].id for c in calls if c.args and isinstance(c.args[0], ast.Name)}
    if "nefc_out" in counters:
      builders.append(analyse_row_builder(name, fn))
    elif counters & (set(TYPE_COUNTERS) | {"efc_nnz_out"} | AUX_COUNTERS):
      raise ExtractError(f"{name}: bumps {sorted(counters)} without allocating rows")
  if not builders:
    raise ExtractError("constraint.py: no row builder found")
  # every sparse kernel that consumes contact_efc_address must skip rows with address < 0
  cc = _parse("collision_core.py")
  wc = next((fn for n, fn in _kernel_defs(cc) if n == "write_contact"), None)
  if wc is None:
    raise ExtractError("collision_core.py: write_contact not found")
  builders.append(analyse_slot("write_contact", wc, "nacon_out", "naconmax"))
  cd = _parse("collision_driver.py")
  found = False
  for n, fn in _kernel_defs(cd):
    calls = _find_calls(fn, "atomic_add")
    if not calls:
      continue
    if n != "_add_geom_pair":
      raise ExtractError(f"collision_driver.py: unexpected allocator {n}")
    builders.append(analyse_slot(n, fn, "ncollision_out", "naconmax"))
    found = True
  if not found:
    raise ExtractError("collision_driver.py: _add_geom_pair allocation not found")
  zskip = analyse_collision_host(cd)
  isl = _parse("island.py")
  cdf = next((fn for n, fn in _kernel_defs(isl) if n == "_compact_dofs"), None)
  if cdf is None:
    raise ExtractError("island.py: _compact_dofs not found")
  b, p = analyse_serial("_compact_dofs", cdf, "nvmax", "NVMAX")
  builders.append(b)
  fwd = _parse("forward.py")
  probes = analyse_next_time(fwd) + [p]
  ntg = analyse_next_time_launch(fwd)
  return builders, probes, {"next_time_guards": ntg, "collision_zero_cap_skip": zskip, "nnz_fix": analyse_nnz_fix(ct), "pair_emitters": analyse_pair_emitters(cd)}


def _coq_bool(b):
  return "true" if b else "false"


def _coq_z(z):
  return f"({z})" if z < 0 else str(z)


def to_coq(builders, probes, host):
  lines = [
    "(* GENERATED by bin/extract_alloc.py from /repo/mujoco_warp/_src/{constraint,collision_core,collision_driver,island,forward}.py",
    "   -- do not edit.  One record per kernel that allocates capacity-limited slots. *)",
    "From Coq Require Import ZArith List String.",
    "From VF Require Import Model.Alloc.",
    "Import ListNotations.",
    "Local Open Scope string_scope.",
    "Local Open Scope Z_scope.",
    "",
  ]
  names = []
  for b in builders:
    ident = "b_" + b["name"].lstrip("_")
    names.append(ident)
    lines.append(f"(* {b['name']} (line {b['line']}): guard `{b['guard_text']}`; aux counters {b['aux']} *)")
    lines.append(
      f'Definition {ident} : builder := mkB "{b["name"]}" "{b["counter"]}" "{b["cap"]}" {b["tcounter"]} {b["rows"]} {_coq_bool(b["perrow"])} '
      f'{b["cmp"]} {_coq_z(b["off"])} {_coq_bool(b["loop"])} {_coq_bool(b["deferred"])} {_coq_bool(b["has_nnz"])} '
      f'{b["ncmp"]} {_coq_z(b["noff"])} {_coq_bool(b["adr_before"])} {_coq_bool(b["rnz_before"])} {_coq_bool(b["rnz_exact"])}.'
    )
  lines.append("")
  rown = [n for n, b in zip(names, builders) if b["counter"] == "nefc_out"]
  slotn = [n for n, b in zip(names, builders) if b["counter"] != "nefc_out"]
  lines.append("(* constraint-row builders of make_constraint, in source order *)")
  lines.append("Definition row_builders : list builder := [" + "; ".join(rown) + "].")
  lines.append("(* one-slot allocators: contacts, broadphase pairs, compacted dofs *)")
  lines.append("Definition slot_builders : list builder := [" + "; ".join(slotn) + "].")
  lines.append("")
  pl = []
  for p in probes:
    kind = "PLastRow" if p["kind"] == "lastrow" else "PCounter"
    pl.append(f'mkP {kind} "{p["counter"]}" "{p["cap"]}" {p["cmp"]} {_coq_z(p["off"])} "{p["bit"]}" "{p["where"]}"')
  lines.append("Definition overflow_probes : list probe := [\n  " + ";\n  ".join(pl) + "].")
  lines.append("")
  lines.append("(* collision_driver.collision returns before any allocation when d.naconmax == 0 *)")
  lines.append(f"Definition collision_zero_cap_skip : bool := {_coq_bool(host['collision_zero_cap_skip'])}.")
  lines.append("(* broadphase kernels that reach _add_geom_pair for every candidate pair (no use of the counter or the")
  lines.append("   capacity other than handing them to the call): " + ", ".join(f"{e['name']} (line {e['line']})" for e in host["pair_emitters"]) + " *)")
  lines.append("Definition pair_emitters : list string := [" + "; ".join('"' + e["name"] + '"' for e in host["pair_emitters"]) + "].")
  fx = host["nnz_fix"]
  lines.append("")
  lines.append("(* repairs of the njmax_nnz class found in make_constraint: direct flag / metadata zeroed first / clamp *)")
  lines.append(f"Definition nnz_fix : nnzfix := mkFix {_coq_bool(fx['flag'])} {_coq_bool(fx['prezero'])} {_coq_bool(fx['clamp'])}.")
  lines.append(f"(* condition paths in make_constraint: zeroing {fx['guards']['zero']}, flag/clamp launch {fx['guards']['launch']};")
  lines.append(f"   forward._advance launches _next_time under {host['next_time_guards']} *)")
  lines.append("(* the repairs run whenever the Jacobian is sparse: guarded by `m.is_sparse` and nothing else *)")
  lines.append(f"Definition nnz_fix_sparse_only : bool := {_coq_bool(fx['sparse_only'])}.")
  lines.append("(* the probes of _next_time run on every step *)")
  lines.append(f"Definition next_time_unconditional : bool := {_coq_bool(host['next_time_guards'] == [])}.")
  lines.append("")
  return "\n".join(lines)


if __name__ == "__main__":
  import json

  bs, ps, host = extract()
  print(json.dumps(host))
  for b in bs:
    print(json.dumps(b))
  for p in ps:
    print(json.dumps(p))
