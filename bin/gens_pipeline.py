"""S generator: host-side stage structure -> Gen/Skel_pipeline.v."""

from __future__ import annotations

import os

import vlib

_cache = {}


class PipelineSkel:
  def __init__(self, prog, kernels):
    self.prog, self.kernels = prog, kernels
    self.errors = {}


def gen_pipeline():
  if "p" in _cache:
    return _cache["p"]
  import extract_launch as E

  prog, kernels = E.extract_all(vlib.REPO)
  text = E.emit_coq(prog)
  vlib.write_if_changed(os.path.join(vlib.COQ, "Gen", "Skel_pipeline.v"), text)
  r = PipelineSkel(prog, kernels)
  _cache["p"] = r
  return r


GENS = {"Skel_pipeline": gen_pipeline}
