"""Kernel translation validation: launch the REAL Warp kernel on concrete arrays and run the
translated Gallina kernel (bin/translate.py want_kernel) over the same launch grid inside Coq
(Base/Kernel.v launch_seq: tasks in ascending linear order, reads see earlier writes, atomics
return the heap value), then compare the final buffers (Base/KernelF.v kv3).

A case:
  case = dict(kernel=<wp.Kernel>, fi=<FuncInfo from want_kernel>, dim=(n0, n1,..),
              args={param: numpy array | python scalar},      # in kernel parameter order
              bind={param: buffer name})                      # optional aliasing, default = param
Arrays bound to the same buffer name must be the same numpy object."""

from __future__ import annotations

import itertools

import numpy as np

import vlib


def _wval(x, t):
  k = t[0]
  if k == "S":
    return f"(VS {vlib.fhex(float(x))})"
  if k == "Z":
    return f"(VZ ({int(x)})%Z)"
  if k == "B":
    return f"(VB {'true' if bool(x) else 'false'})"
  if k in ("V", "Q", "M"):
    return f"(VV {vlib.flist(np.asarray(x, dtype=np.float64).reshape(-1))})"
  if k == "VI":
    return f"(VZs {vlib.zlist(np.asarray(x).reshape(-1))})"
  raise NotImplementedError(str(t))


def _lit(x, t):
  k = t[0]
  if k == "S":
    return vlib.fhex(float(x))
  if k == "Z":
    return f"({int(x)})%Z"
  if k == "B":
    return "true" if bool(x) else "false"
  if k in ("V", "Q", "M"):
    return vlib.flist(np.asarray(x, dtype=np.float64).reshape(-1))
  if k == "VI":
    return vlib.zlist(np.asarray(x).reshape(-1))
  raise NotImplementedError(str(t))


def _dflt(t):
  return {"S": "0%float", "Z": "0%Z", "B": "false"}.get(t[0], "nil")


def _static_fun(arr, elt, ndim):
  """Gallina function Z -> .. -> T reading a nested list literal (read-only array)."""
  a = np.asarray(arr)
  d = _dflt(elt)

  def nest(x, depth):
    if depth == ndim:
      return _lit(x, elt)
    return "[" + "; ".join(nest(y, depth + 1) for y in x) + "]"

  vars_ = [f"i{j}" for j in range(ndim)]
  body = nest(a, 0)
  for j, v in enumerate(vars_):
    dd = d if j == ndim - 1 else "nil"
    body = f"(lk {body} {dd} {v})"
  return "(fun " + " ".join(vars_) + " => " + body + ")"


def _heap_fun(buf, elt, ndim):
  g = {"S": "hgetS", "Z": "hgetZ", "B": "hgetB", "VI": "hgetZs"}.get(elt[0], "hgetV")
  vars_ = [f"i{j}" for j in range(ndim)]
  body = f'{g} h "{buf}"%string [{"; ".join(vars_)}]'
  return "(fun " + " ".join(vars_) + " => " + body + ")"


def _heap_entries(buf, arr, elt, ndim):
  a = np.asarray(arr)
  out = []
  for idx in itertools.product(*[range(n) for n in a.shape[:ndim]]):
    out.append(f'(("{buf}"%string, {vlib.zlist(idx)}), {_wval(a[idx], elt)})')
  return out


def _wp_dtype(t):
  import warp as wp

  k = t[0]
  if k == "S":
    return wp.float32
  if k == "Z":
    return wp.int32
  if k == "B":
    return wp.bool
  if k == "Q":
    return wp.quat
  if k == "V":
    return {2: wp.vec2, 3: wp.vec3, 4: wp.vec4, 6: wp.spatial_vector}.get(t[1]) or wp.types.vector(length=t[1], dtype=float)
  if k == "VI":
    return {2: wp.vec2i, 3: wp.vec3i, 4: wp.vec4i}.get(t[1]) or wp.types.vector(length=t[1], dtype=int)
  if k == "M":
    return wp.mat33 if (t[1], t[2]) == (3, 3) else wp.types.matrix(shape=(t[1], t[2]), dtype=float)
  raise NotImplementedError(str(t))


def run_cases(res, tag, gen_import, cases, tol=2e-4, written_hint=None):
  """Returns list of failing case indices (verdict 2); counts go into res."""
  import warp as wp

  import tvalid

  lines, extra = [], []
  for ci, c in enumerate(cases):
    fi = c["fi"]
    nt = fi.ntid
    params = list(zip(fi.argnames[nt:-1], fi.argtypes[nt:-1]))
    bind = dict(c.get("bind", {}))
    args = c["args"]
    written = set(c.get("written", ())) or set(written_hint or ())
    if "after" in c:
      # traced real launch (bin/ktrace.py): buffers before are in args, after in c["after"]
      init = {}
      for p, t in params:
        if t[0] == "A" and bind.get(p, p) == p:
          init[p] = np.asarray(args[p])
      final = {b: np.asarray(c["after"][b]) for b in init}
      bufs = init
    else:
      # real launch
      bufs = {}
      wargs = []
      for p, t in params:
        v = args[p]
        if t[0] == "A":
          b = bind.get(p, p)
          if b not in bufs:
            bufs[b] = wp.array(np.ascontiguousarray(v), dtype=_wp_dtype(t[1]))
          wargs.append(bufs[b])
        else:
          wargs.append(v)
      init = {b: bufs[b].numpy().copy() for b in bufs}
      wp.launch(c["kernel"], dim=c["dim"], inputs=wargs)
      wp.synchronize()
      final = {b: bufs[b].numpy().copy() for b in bufs}
    changed = {b for b in bufs if not np.array_equal(init[b], final[b], equal_nan=True)}
    tracked = changed | {bind.get(p, p) for p in written}
    # Coq term
    call_args = []
    for p, t in params:
      if t[0] == "A":
        b = bind.get(p, p)
        call_args.append(_heap_fun(b, t[1], t[2]) if b in tracked else _static_fun(init[b], t[1], t[2]))
      else:
        call_args.append(_lit(args[p], t))
    shapes = []
    for r, k in fi.shape_params:
      shapes.append(f"({int(np.asarray(args[r]).shape[k])})%Z")
    dims = c["dim"] if isinstance(c["dim"], (tuple, list)) else (c["dim"],)
    dims = tuple(dims) + (1,) * (nt - len(dims))
    tasks = []
    grid = list(itertools.product(*[range(int(n)) for n in dims[:nt]]))
    order = c.get("order", "asc")
    if order == "rev":
      grid = grid[::-1]
    elif order.startswith("perm:"):
      grid = [grid[i] for i in np.random.default_rng(int(order[5:])).permutation(len(grid))]
    for tid in grid:
      tids = " ".join(f"({i})%Z" for i in tid)
      tasks.append(f"(fun h orc => ({fi.coqname} {tids} {' '.join(call_args)} orc {' '.join(shapes)} : list (write float)))")
    ptypes = dict(params)
    belt = {}
    for p, t in params:
      if t[0] == "A":
        belt.setdefault(bind.get(p, p), t)
    h0 = []
    hexp = []
    for b in sorted(tracked):
      t = belt[b]
      h0 += _heap_entries(b, init[b], t[1], t[2])
      hexp += _heap_entries(b, final[b], t[1], t[2])
    ren = "(fun s => " + "".join(f'if String.eqb s "{p}" then "{b}"%string else ' for p, b in bind.items()) + "s)"
    name = f"case_{ci}"
    extra.append(
      f"Definition {name}_init : heapF := [{'; '.join(h0)}].\n"
      f"Definition {name}_exp : heapF := [{'; '.join(hexp)}].\n"
      f"Definition {name}_run (Sc : Scalar float) : heapF := launchF {ren} {c.get('fuel', 4)} [\n  " + ";\n  ".join(tasks) + f"] {name}_init.\n"
    )
    lines.append(f"kv3 {vlib.fhex(tol)} {name}_run {name}_exp")
    res.count()
  extra = ["From Coq Require Import String.\n" + x for x in extra]
  verdicts = tvalid.run_cases(tag, ["Base.Kernel", "Base.KernelF", gen_import], lines, chunk=8, extra_defs=extra)
  return verdicts
