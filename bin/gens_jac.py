"""T generator for C22: support.jac's kernel (a @cache_kernel factory product) and the functions it
calls -> Gen/kjac.v.  jac_dof / _compute_jacp / _compute_jacr are also in Gen/T_support.v (generator
"T_support"); Proof/Jac.v proves the two copies of jac_dof equal by reflexivity."""

from __future__ import annotations

import os

import vlib

_cache = {}


def gen_kjac():
  if "k" in _cache:
    return _cache["k"]
  import translate as T

  import mujoco_warp._src.support as S

  tr = T.Translator()
  tr.kernels = {}
  for name, args in (("k_jac_pr", (True, True)), ("k_jac_p", (True, False)), ("k_jac_r", (False, True))):
    fi = tr.want_kernel(S._make_jac_kernel(*args), name)
    if fi is not None:
      tr.kernels[name] = fi
  for fn in ("_compute_jacp", "_compute_jacr"):
    try:
      tr.want(S.__name__, fn)
    except Exception as e:  # fail closed per function
      tr.errors[f"{S.__name__}.{fn}"] = f"CRASH {type(e).__name__}: {e}"
  tr.emit(os.path.join(vlib.COQ, "Gen", "kjac.v"))
  _cache["k"] = tr
  return tr


GENS = {"kjac": gen_kjac}
