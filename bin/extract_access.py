"""S: classify every array access of every Warp kernel / func of /repo by the abstract
value of its LEADING index (C09/C10/C17 discipline), by a small abstract interpretation
over the Python `ast` (no pattern matching on one spelling).

Abstract values of integer expressions
  TID0            first component of wp.tid(), never reassigned
  TIDk            k-th component (k >= 1)
  MOD:<p>         <TID0 or WTAG or PARAM-world> % <p>.shape[0]   for array parameter p
  WTAG:<p>        value loaded from an array parameter whose name contains "worldid"
  PARAM:<name>    an integer parameter of a wp.func (resolved at call sites)
  CONST           literal / wp.static constant
  OTHER           anything else
Array roles (from the dataclass field specs in types.py, bound through launch sites or,
failing that, through the parameter-name convention):
  world   leading dim "nworld"        batch   leading dim "*"
  flat    leading dim naconmax/...    shared  other Model fields      counter  shape (1,)
"""

from __future__ import annotations

import ast
import os
import re

SRC = "mujoco_warp/_src"


def _txt(n):
  return ast.unparse(n)


def is_array_annotation(a):
  t = _txt(a) if a is not None else ""
  return bool(re.search(r"\barray(\dd)?\b", t))


class FuncInfo:
  def __init__(self, qual, node, kind, factory=None):
    self.qual, self.node, self.kind, self.factory = qual, node, kind, factory  # kind: kernel|func
    self.params = [a.arg for a in node.args.args]
    self.array_params = [a.arg for a in node.args.args if is_array_annotation(a.annotation)]
    self.array_ndim = {}
    for a in node.args.args:
      if is_array_annotation(a.annotation):
        t = _txt(a.annotation)
        m = re.search(r"array(\d)d", t)
        m2 = re.search(r"ndim\s*=\s*(\d)", t)
        self.array_ndim[a.arg] = int(m.group(1)) if m else (int(m2.group(1)) if m2 else 1)
    self.int_params = [a.arg for a in node.args.args if a.annotation is not None and _txt(a.annotation) in ("int", "wp.int32")]
    self.accesses = []  # (param, av, kind, line)
    self.calls = []  # (callee name text, [arg av or ('ARR', param, lead av or None)], line)
    self.ntid = 0


def _isw(a):
  return a == "W" or a.startswith("WTAG")


def join(a, b):
  if a == b:
    return a
  if _isw(a) and _isw(b):
    return "W"
  return "OTHER"


class Analyzer(ast.NodeVisitor):
  """Forward abstract interpretation of one function body."""

  def __init__(self, fi: FuncInfo):
    self.fi = fi
    self.env = {}  # int var -> av
    self.alias = {}  # var -> (array param, lead av)   for  row = arr[worldid]
    for p in fi.int_params:
      self.env[p] = "PARAM:" + p

  # -- expressions -----------------------------------------------------------
  def av(self, e):
    if isinstance(e, ast.Constant) and isinstance(e.value, (int, bool)):
      return "CONST"
    if isinstance(e, ast.Name):
      return self.env.get(e.id, "OTHER")
    if isinstance(e, ast.Call):
      f = _txt(e.func)
      if f == "wp.tid":
        return "TID0"
      if f == "wp.static":
        return "CONST"
      if f in ("int", "wp.int32") and len(e.args) == 1:
        return self.av(e.args[0])
      if f in ("wp.where", "wp.select") and len(e.args) == 3:
        return join(self.av(e.args[1]), self.av(e.args[2]))
      return "OTHER"
    if isinstance(e, ast.BinOp) and isinstance(e.op, ast.Mod):
      l = self.av(e.left)
      r = e.right
      # X % p.shape[0]
      if (
        isinstance(r, ast.Subscript)
        and isinstance(r.value, ast.Attribute)
        and r.value.attr == "shape"
        and isinstance(r.value.value, ast.Name)
        and isinstance(r.slice, ast.Constant)
        and r.slice.value == 0
      ):
        p = r.value.value.id
        base = self.alias_root(p)
        if l == "TID0" or l.startswith("WTAG") or l.startswith("PARAM:"):
          return f"MOD:{base}:{l}"
      # X % n with n a closure variable of the enclosing kernel factory (resolved through the factory's call sites)
      if isinstance(r, ast.Name) and r.id not in self.env and (l == "TID0" or l.startswith("WTAG") or l.startswith("PARAM:")):
        return f"MODF:{r.id}:{l}"
      return "OTHER"
    if isinstance(e, ast.Subscript):
      root, lead, full = self.subscript_root(e)
      if root is not None and "worldid" in root and full:
        return "WTAG:" + root
      return "OTHER"
    if isinstance(e, ast.IfExp):
      # (w % n) if wp.static(n > 1) else 0   ==   w % n   (n = 1 gives 0)
      b = self.av(e.body)
      t = e.test
      if (
        b.startswith("MODF:")
        and isinstance(t, ast.Call)
        and _txt(t.func) == "wp.static"
        and len(t.args) == 1
        and _txt(t.args[0]) == b.split(":")[1] + " > 1"
        and isinstance(e.orelse, ast.Constant)
        and e.orelse.value == 0
      ):
        return b
      return join(b, self.av(e.orelse))
    return "OTHER"

  def alias_root(self, name):
    return self.alias[name][0] if name in self.alias else name

  def subscript_root(self, e):
    """For a[i][j] / a[i, j] / alias[k]: (array param, leading index av, fully_indexed?)."""
    idx = []
    cur = e
    while isinstance(cur, ast.Subscript):
      sl = cur.slice.elts if isinstance(cur.slice, ast.Tuple) else [cur.slice]
      idx = list(sl) + idx
      cur = cur.value
    if not isinstance(cur, ast.Name):
      return None, None, False
    name = cur.id
    if name in self.alias:
      root, lead = self.alias[name]
      return root, lead, True
    if name in self.fi.array_params:
      return name, self.av(idx[0]) if idx else None, True
    return None, None, False

  # -- accesses -----------------------------------------------------------------
  def record(self, root, lead, kind, node):
    self.fi.accesses.append((root, lead if lead is not None else "WHOLE", kind, getattr(node, "lineno", 0)))

  def scan_reads(self, e):
    """Record every read access inside expression e."""
    if e is None:
      return
    if isinstance(e, ast.Subscript):
      root, lead, _ = self.subscript_root(e)
      if root is not None:
        self.record(root, lead, "read", e)
        cur = e
        while isinstance(cur, ast.Subscript):
          for s in cur.slice.elts if isinstance(cur.slice, ast.Tuple) else [cur.slice]:
            self.scan_reads(s)
          cur = cur.value
        return
    if isinstance(e, ast.Call):
      self.scan_call(e)
      return
    for c in ast.iter_child_nodes(e):
      self.scan_reads(c)

  def scan_call(self, c):
    f = _txt(c.func)
    if isinstance(c.func, ast.Call) and _txt(c.func.func) == "wp.static" and c.func.args and isinstance(c.func.args[0], ast.Call):
      # call of a wp.func built by a factory: wp.static(factory(static args))(args)
      f = "@factory:" + _txt(c.func.args[0].func)
    m = re.match(r"wp\.(atomic_\w+|tile_atomic_add|tile_store)$", f)
    if m and c.args:
      tgt = c.args[0] if not f.endswith("tile_store") else c.args[0]
      if isinstance(tgt, ast.Name) and tgt.id in self.fi.array_params and len(c.args) >= 2:
        self.record(tgt.id, self.av(c.args[1]), "atomic", c)
      elif isinstance(tgt, ast.Name) and tgt.id in self.alias:
        self.record(self.alias[tgt.id][0], self.alias[tgt.id][1], "atomic", c)
      elif isinstance(tgt, ast.Subscript):
        root, lead, _ = self.subscript_root(tgt)
        if root is not None:
          self.record(root, lead, "atomic" if "atomic" in f else "write", c)
      for a in c.args[1:]:
        self.scan_reads(a)
      return
    if f.startswith("wp.tile_load") and c.args:
      tgt = c.args[0]
      if isinstance(tgt, ast.Subscript):
        root, lead, _ = self.subscript_root(tgt)
        if root is not None:
          self.record(root, lead, "read", c)
      elif isinstance(tgt, ast.Name) and tgt.id in self.fi.array_params:
        self.record(tgt.id, None, "read", c)
      for a in c.args[1:]:
        self.scan_reads(a)
      return
    if not f.startswith(("wp.", "float", "int", "bool", "range", "len")):
      args = []
      for a in c.args:
        if isinstance(a, ast.Name) and a.id in self.fi.array_params:
          args.append(("ARR", a.id, None))
        elif isinstance(a, ast.Name) and a.id in self.alias:
          args.append(("ARR", self.alias[a.id][0], self.alias[a.id][1]))
        elif isinstance(a, ast.Subscript) and self.subscript_root(a)[0] is not None and self._is_view(a):
          root, lead, _ = self.subscript_root(a)
          args.append(("ARR", root, lead))
        else:
          args.append(("INT", self.av(a)))
      self.fi.calls.append((f, args, c.lineno))
    for a in c.args:
      self.scan_reads(a)
    for k in c.keywords:
      self.scan_reads(k.value)

  def _is_view(self, a):
    # heuristic: a[i] with one index on a >=2-D param passed to a function is a row view;
    # it is ALSO recorded as a read by scan_reads.
    return True

  # -- statements -----------------------------------------------------------------
  def run(self, body):
    for s in body:
      self.stmt(s)

  def assign_name(self, name, value):
    # tid unpacking handled by caller
    if isinstance(value, ast.Subscript):
      root, lead, _ = self.subscript_root(value)
      if root is not None:
        # could be a row view (alias) or a scalar load; treat as both: alias for later
        # subscripts, and the integer abstract value for use as an index
        nidx = 0
        cur = value
        while isinstance(cur, ast.Subscript):
          nidx += len(cur.slice.elts) if isinstance(cur.slice, ast.Tuple) else 1
          cur = cur.value
        if isinstance(cur, ast.Name) and cur.id in self.fi.array_params:
          self.alias[name] = (root, lead)
    self.env[name] = self.av(value)

  def stmt(self, s):
    if isinstance(s, ast.Assign):
      self.scan_reads(s.value)
      for t in s.targets:
        if isinstance(t, ast.Tuple) and isinstance(s.value, ast.Call) and _txt(s.value.func) == "wp.tid":
          for k, e in enumerate(t.elts):
            if isinstance(e, ast.Name):
              self.env[e.id] = f"TID{k}"
          self.fi.ntid = len(t.elts)
        elif isinstance(t, ast.Tuple) and isinstance(s.value, ast.Tuple) and len(t.elts) == len(s.value.elts):
          for e, v in zip(t.elts, s.value.elts):
            if isinstance(e, ast.Name):
              self.assign_name(e.id, v)
        elif isinstance(t, ast.Name):
          if isinstance(s.value, ast.Call) and _txt(s.value.func) == "wp.tid":
            self.fi.ntid = max(self.fi.ntid, 1)
          self.assign_name(t.id, s.value)
        elif isinstance(t, ast.Tuple):
          for e in t.elts:
            if isinstance(e, ast.Name):
              self.env[e.id] = "OTHER"
        elif isinstance(t, ast.Subscript):
          root, lead, _ = self.subscript_root(t)
          if root is not None:
            self.record(root, lead, "write", t)
          cur = t
          while isinstance(cur, ast.Subscript):
            for x in cur.slice.elts if isinstance(cur.slice, ast.Tuple) else [cur.slice]:
              self.scan_reads(x)
            cur = cur.value
      return
    if isinstance(s, ast.AugAssign):
      self.scan_reads(s.value)
      if isinstance(s.target, ast.Subscript):
        root, lead, _ = self.subscript_root(s.target)
        if root is not None:
          self.record(root, lead, "read", s.target)
          self.record(root, lead, "write", s.target)
      elif isinstance(s.target, ast.Name):
        self.env[s.target.id] = "OTHER"
      return
    if isinstance(s, ast.AnnAssign):
      if s.value is not None:
        self.scan_reads(s.value)
        if isinstance(s.target, ast.Name):
          self.assign_name(s.target.id, s.value)
      return
    if isinstance(s, ast.Expr):
      self.scan_reads(s.value)
      return
    if isinstance(s, ast.Return):
      self.scan_reads(s.value)
      return
    if isinstance(s, ast.If):
      self.scan_reads(s.test)
      e0, a0 = dict(self.env), dict(self.alias)
      self.run(s.body)
      e1, a1 = self.env, self.alias
      self.env, self.alias = dict(e0), dict(a0)
      self.run(s.orelse)
      e2, a2 = self.env, self.alias
      self.env = {k: join(e1.get(k, "OTHER"), e2.get(k, "OTHER")) if (k in e1 and k in e2) else (e1.get(k) or e2.get(k)) for k in set(e1) | set(e2)}
      self.alias = {k: a1[k] for k in a1 if k in a2 and a1[k] == a2[k]}
      for k in set(a1) ^ set(a2):
        self.alias[k] = a1.get(k) or a2.get(k)
      return
    if isinstance(s, (ast.For, ast.While)):
      if isinstance(s, ast.For):
        self.scan_reads(s.iter)
        for n in ast.walk(s.target):
          if isinstance(n, ast.Name):
            self.env[n.id] = "OTHER"
      else:
        self.scan_reads(s.test)
      # variables assigned in the body lose precision unless they keep the same value
      assigned = set()
      for n in ast.walk(s):
        if isinstance(n, ast.Assign):
          for t in n.targets:
            for m in ast.walk(t):
              if isinstance(m, ast.Name) and isinstance(m.ctx, ast.Store):
                assigned.add(m.id)
        if isinstance(n, ast.AugAssign) and isinstance(n.target, ast.Name):
          assigned.add(n.target.id)
      pre = dict(self.env)
      nacc = len(self.fi.accesses)
      self.run(s.body)
      post = dict(self.env)
      changed = {k for k in assigned if pre.get(k) is not None and pre.get(k) != post.get(k)}
      if changed:
        # re-run with those variables widened so that accesses are classified soundly
        del self.fi.accesses[nacc:]
        self.env = dict(pre)
        for k in changed:
          self.env[k] = "OTHER"
        self.run(s.body)
        for k in changed:
          self.env[k] = "OTHER"
      return
    if isinstance(s, (ast.Pass, ast.Break, ast.Continue)):
      return
    for c in ast.iter_child_nodes(s):
      if isinstance(c, ast.expr):
        self.scan_reads(c)


TREES = {}


def closure_exprs(mod, factory, var, depth=0):
  """Host expressions (source text) that reach parameter `var` of kernel/func factory `mod.factory`,
  followed through enclosing factories that merely pass their own parameter on."""
  tree = TREES.get(mod)
  node = next((n for n in tree.body if isinstance(n, ast.FunctionDef) and n.name == factory), None) if tree else None
  if node is None:
    return {"?" + var}
  params = [a.arg for a in node.args.args]
  if var not in params:
    return {"?" + var}
  pos = params.index(var)
  out = set()
  for m2, t2 in TREES.items():
    for top in t2.body:
      tops = [top]
      for c in ast.walk(top):
        if not isinstance(c, ast.Call):
          continue
        fn = c.func
        if isinstance(fn, ast.Name):
          if fn.id != factory or m2 != mod:
            continue
        elif isinstance(fn, ast.Attribute):
          if fn.attr != factory or _txt(fn.value) != mod:
            continue
        else:
          continue
        arg = c.args[pos] if pos < len(c.args) else next((k.value for k in c.keywords if k.arg == var), None)
        if arg is None:
          out.add("?default")
          continue
        enc = top if isinstance(top, ast.FunctionDef) else None
        if isinstance(arg, ast.Name) and enc is not None and arg.id in [a.arg for a in enc.args.args] and depth < 4:
          out |= closure_exprs(m2, enc.name, arg.id, depth + 1)
        else:
          out.add(_txt(arg))
  return out or {"?uncalled"}


def collect(repo="/repo"):
  """Parse every module of _src; return {qual: FuncInfo} for kernels and funcs (incl. those nested in factories)."""
  out = {}
  d = os.path.join(repo, SRC)
  for fn in sorted(os.listdir(d)):
    if not fn.endswith(".py") or fn.endswith("_test.py"):
      continue
    mod = fn[:-3]
    tree = ast.parse(open(os.path.join(d, fn)).read())
    TREES[mod] = tree

    def visit(node, factory=None):
      for n in node.body if hasattr(node, "body") else []:
        if isinstance(n, ast.FunctionDef):
          decos = [_txt(x) for x in n.decorator_list]
          if any(x.startswith("wp.kernel") or x.startswith("kernel(") or x == "kernel" or "nested_kernel" in x for x in decos):
            q = f"{mod}.{factory}.{n.name}" if factory else f"{mod}.{n.name}"
            out[q] = FuncInfo(q, n, "kernel", factory)
          elif any(x.startswith("wp.func") for x in decos):
            q = f"{mod}.{factory}.{n.name}" if factory else f"{mod}.{n.name}"
            out[q] = FuncInfo(q, n, "func", factory)
          else:
            visit(n, factory=n.name if factory is None else factory)
        elif isinstance(n, (ast.If, ast.With, ast.For, ast.Try)):
          visit(n, factory)

    visit(tree)
  for fi in out.values():
    a = Analyzer(fi)
    a.run(fi.node.body)
  return out


# ---- roles ----------------------------------------------------------------------
NDIM = {}


def field_roles():
  """{('m'|'d'|'contact'|'efc'|'opt'|..., field): role} from the dataclass specs of types.py."""
  import dataclasses

  from mujoco_warp._src import types

  roles = {}

  def role_of(arr):
    shape = getattr(arr, "shape", None)
    if not shape:
      return None
    lead = shape[0]
    if lead == "nworld":
      return "world"
    if lead == "*":
      return "batch"
    if lead == 1 and len(shape) == 1:
      return "counter"
    if isinstance(lead, str) and lead in ("naconmax", "naccdmax", "nsensorcontact"):
      return "flat"
    return "shared"

  for cname, key in (
    ("Model", "m"), ("Data", "d"), ("Contact", "contact"), ("Constraint", "efc"), ("Option", "opt"),
    ("Statistic", "stat"), ("SolverContext", "ctx"), ("InverseContext", "ictx"),
  ):  # fmt: skip
    cls = getattr(types, cname, None)
    if cls is None:
      continue
    for f in dataclasses.fields(cls):
      r = role_of(f.type) if not isinstance(f.type, str) else None
      if r:
        roles[(key, f.name)] = r
        NDIM[(key, f.name)] = len(f.type.shape)
  return roles


def role_by_name(param, roles, ndim=None):
  """Role of a kernel parameter by the repo's naming convention (field name + _in/_out).
  A parameter whose annotated rank is lower than the field's is a pre-sliced row: unknown."""
  base = re.sub(r"_(in|out|io)$", "", param)
  cands = []
  for pre, key in (("contact_", "contact"), ("efc_", "efc"), ("opt_", "opt"), ("stat_", "stat"), ("ctx_", "ctx")):
    if base.startswith(pre) and (key, base[len(pre) :]) in roles:
      cands.append((key, base[len(pre) :]))
  for key in ("d", "m"):
    if (key, base) in roles:
      cands.append((key, base))
  for c in cands:
    if ndim is not None and NDIM.get(c) is not None and NDIM[c] != ndim:
      return "row-view"
    return roles[c]
  return "unknown"


def role_by_expr(expr, roles):
  """Role of a launch argument expression such as d.qpos, m.opt.timestep, d.contact.dist."""
  e = expr.strip()
  m = re.match(r"^(\w+)\.(\w+)(?:\.(\w+))?$", e)
  if not m:
    return None
  a, b, c = m.groups()
  if c is None:
    key = {"m": "m", "d": "d", "ctx": "ctx"}.get(a)
    if key and (key, b) in roles:
      return roles[(key, b)]
    return None
  key = {"contact": "contact", "efc": "efc", "opt": "opt", "stat": "stat"}.get(b)
  if key and (key, c) in roles:
    return roles[(key, c)]
  return None


def table(repo="/repo", roots=None):
  """Rows: dict(kernel, param, role, idx, kind, line) for every access of every kernel/func."""
  funcs = collect(repo)
  roles = field_roles()
  import extract_launch as EL

  prog, _ = EL.extract_all(repo)
  # launch bindings: kernel short name -> list of (param -> arg expr), and world-first?
  bind = {}
  worldfirst = {}

  def walk(stmts):
    for s in stmts:
      if s["k"] == "launch":
        kn = s["kernel"]
        bind.setdefault(kn, []).append(s["ins"] + s["outs"])
        wf = re.match(r"^[\(\[]?\s*(d\.nworld|nworld|m\.nworld)\b", s["dim"].strip()) is not None
        worldfirst.setdefault(kn, []).append(wf)
      for key in ("then", "else", "body"):
        if key in s:
          walk(s[key])

  for f in prog.values():
    walk(f["body"])
  # --- which kernels are launched world-first; nested kernels are launched by their own name
  def sites_of(q, fi):
    mod = q.split(".")[0]
    names = [q]
    if fi.factory:
      names = [f"{mod}.{fi.factory}", f"{mod}.{fi.node.name}"]
    out_s, out_w = [], []
    for n in names:
      out_s += bind.get(n, [])
      out_w += worldfirst.get(n, [])
    return out_s, out_w

  # --- interprocedural resolution of integer parameters of wp.funcs --------------------
  by_short = {}
  for q in funcs:
    by_short.setdefault(q.split(".")[-1], []).append(q)

  def callee_qual(caller_q, name):
    if name.startswith("@factory:"):
      fac = name[len("@factory:") :]
      mod = fac.split(".")[0] if "." in fac else caller_q.split(".")[0]
      cands = [q for q, fi in funcs.items() if fi.kind == "func" and fi.factory == fac.split(".")[-1] and q.split(".")[0] == mod]
      return cands[0] if len(cands) == 1 else None
    short = name.split(".")[-1]
    cands = by_short.get(short, [])
    if len(cands) == 1:
      return cands[0]
    mod = name.split(".")[0] if "." in name else caller_q.split(".")[0]
    for c in cands:
      if c.split(".")[0] == mod:
        return c
    return None

  def kernel_env_value(q, fi, av):
    """Resolve TID0 -> W for kernels whose every launch site is world-first."""
    if fi.kind == "kernel":
      _, wf = sites_of(q, fi)
      if wf and all(wf):
        av = av.replace("TID0", "W")
    return re.sub(r"WTAG:\w+", "W", av)

  param_val = {}  # (func qual, param name) -> av
  for _ in range(6):
    changed = False
    for q, fi in funcs.items():
      for name, args, line in fi.calls:
        cq = callee_qual(q, name)
        if cq is None:
          continue
        cf = funcs[cq]
        for k, a in enumerate(args):
          if k >= len(cf.params):
            break
          if a[0] != "INT":
            continue
          pname = cf.params[k]
          if pname not in cf.int_params:
            continue
          v = kernel_env_value(q, fi, a[1])
          if v.startswith("PARAM:"):
            v = param_val.get((q, v[6:]), None)
            if v is None:
              continue
          old = param_val.get((cq, pname))
          new = v if old is None else join(old, v)
          if new != old:
            param_val[(cq, pname)] = new
            changed = True
    if not changed:
      break

  def resolve(q, fi, av):
    av = kernel_env_value(q, fi, av)
    m = re.search(r"PARAM:(\w+)", av)
    if m:
      v = param_val.get((q, m.group(1)))
      if v is not None and _isw(v):
        av = av.replace(m.group(0), "W")
    return av

  # --- reachability from the given host roots (kernels launched, then funcs they call)
  reach_k = set()
  if roots is not None:
    seen_f = set()

    def walk_host(fname):
      if fname in seen_f or fname not in prog:
        return
      seen_f.add(fname)

      def ws(stmts):
        for s in stmts:
          if s["k"] == "launch":
            reach_k.add(s["kernel"])
          if s["k"] == "call":
            walk_host(s["f"])
          for key in ("then", "else", "body"):
            if key in s:
              ws(s[key])

      ws(prog[fname]["body"])

    for r in roots:
      walk_host(r)
  reach = set()
  if roots is not None:
    for q, fi in funcs.items():
      if fi.kind != "kernel":
        continue
      mod = q.split(".")[0]
      names = [q] if not fi.factory else [f"{mod}.{fi.factory}", f"{mod}.{fi.node.name}"]
      if any(n in reach_k for n in names):
        reach.add(q)
    work = list(reach)
    while work:
      q = work.pop()
      for name, args, line in funcs[q].calls:
        cq = callee_qual(q, name)
        if cq is not None and cq not in reach:
          reach.add(cq)
          work.append(cq)

  def array_exprs(q, param, depth=0):
    """Host expressions bound to array parameter `param` of kernel/func q (through callers for funcs)."""
    fi = funcs[q]
    out = set()
    if fi.kind == "kernel":
      for args in sites_of(q, fi)[0]:
        if len(args) == len(fi.params):
          out.add(args[fi.params.index(param)].strip())
      return out
    if depth > 4:
      return {"?deep"}
    for cq0, cfi in funcs.items():
      for name, args, line in cfi.calls:
        if callee_qual(cq0, name) != q:
          continue
        k = fi.params.index(param)
        if k < len(args) and args[k][0] == "ARR":
          out |= array_exprs(cq0, args[k][1], depth + 1)
        else:
          out.add("?nonarray")
    return out

  rows = []
  for q, fi in sorted(funcs.items()):
    sites, wf = sites_of(q, fi)
    if fi.kind == "kernel" and not sites:
      continue  # never launched from the host code that extract_launch sees
    if roots is not None and q not in reach:
      continue
    for param, av, kind, line in fi.accesses:
      role = None
      if fi.kind == "kernel" and sites:
        rs = set()
        for args in sites:
          if len(args) == len(fi.params):
            r = role_by_expr(args[fi.params.index(param)], roles)
            if r:
              rs.add(r)
        if len(rs) == 1:
          role = rs.pop()
        elif len(rs) > 1:
          role = "mixed"
      if role is None:
        role = role_by_name(param, roles, fi.array_ndim.get(param))
      idx = resolve(q, fi, av)
      if idx.startswith("MODF:"):
        _, var, rest = idx.split(":", 2)
        ns = closure_exprs(q.split(".")[0], fi.factory, var) if fi.factory else {"?" + var}
        arrs = array_exprs(q, param)
        if len(arrs) == 1 and ns == {next(iter(arrs)) + ".shape[0]"}:
          idx = f"MOD:{param}:{rest}"  # modulo the leading size of the very array it indexes
        else:
          idx = "MOD:" + "|".join(sorted(ns)).replace(":", ";") + f"<-{var}:{rest}"
      rows.append({"kernel": q, "fkind": fi.kind, "param": param, "role": role, "idx": idx, "kind": kind, "line": line})
  return rows, funcs


STEP_ROOTS = ["forward.step", "forward.step1", "forward.step2", "forward.forward", "inverse.inverse"]


def verdict(r):
  """ok | reason: the batch-indexing discipline for one access row."""
  idx, role, param = r["idx"], r["role"], r["param"]
  isW = idx == "W" or idx.startswith("WTAG")
  if role == "world":
    return "ok" if isW else "world-array-not-indexed-by-world-id"
  if role == "batch":
    if idx.startswith("MOD:"):
      parts = idx.split(":")
      if parts[1] == param and (parts[2] == "W" or parts[2] == "WTAG"):
        return "ok"
      return "batched-field-indexed-modulo-another-field" if parts[1] != param else "batched-field-modulo-of-non-world-id"
    return "batched-field-not-indexed-modulo-its-own-size"
  return "ok"


if __name__ == "__main__":
  import collections
  import sys

  rows, funcs = table(sys.argv[1] if len(sys.argv) > 1 else "/repo", roots=STEP_ROOTS)
  c = collections.Counter((r["role"], r["idx"].split(":")[0]) for r in rows)
  for k, v in sorted(c.items()):
    print(k, v)
  bad = [r for r in rows if verdict(r) != "ok"]
  print(len(rows), "rows,", len(bad), "exceptions")
  for r in bad[:80]:
    print(" ", r["kernel"], r["param"], r["role"], r["idx"], r["kind"], r["line"], verdict(r))
