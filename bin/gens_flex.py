"""T generator "T_flex": the flex kernels of smooth.py / passive.py -> coq/Gen/T_flex.v.

The generic generators (gens_all.py "T_smooth", "T_passive") fail closed on these kernels with
"unknown name f": every flex kernel starts with the SEARCH-LOOP idiom

    for f in range(nflex):                    for i in range(nflex):
      locid = vertid - flex_vertadr[f]          locid = edgeid - flex_edgeadr[i]
      if locid >= 0 and locid < num[f]:         if locid >= 0 and locid < flex_edgenum[i]:
        break                                     f = i
    ... f used here ...                           break
                                              ... f used here ...

i.e. a variable that is first bound INSIDE the loop (the loop target itself, or a copy of it)
is read after the loop.  Warp declares every variable at function scope, so the value read is
the last one assigned (measured here on Warp 1.17 CPU, /tmp experiment recorded in
props/C40.py `search_loop_semantics`): loop target after `break` = the index at the break; after
a loop that ran to completion = the last index; a variable never assigned = an uninitialised
register (garbage).  bin/translate.py (not ours to edit) folds a loop over the variables that are
live BEFORE it, so it rejects the idiom.  This module normalises the idiom on the AST before
handing the kernel to the unchanged translator:

    f = 0                          # only observable when no iteration assigns f: the real
    for f__it in range(nflex):     # kernel then reads garbage, so theorems about T_flex
      f = f__it                    # carry the hypothesis that some flex owns the index
      <body>

The rewrite is purely syntactic and is applied only to top-level `for .. in range(..)` loops and
only to names first bound inside the loop and read after it; the pre-declared value is the
integer 0, so a loop-born variable of another type fails closed in the translator.  The translated kernels are tied
to the REAL kernels on every run by kernel validation (bin/kvalid.py on traced launches,
props/C40.py), which is what justifies the rewrite operationally.
"""

from __future__ import annotations

import ast
import copy
import inspect
import os
import textwrap

import vlib

_cache = {}

SMOOTH_KERNELS = ["_flex_nodes", "_flex_vertices", "_flex_edges"]
PASSIVE_KERNELS = ["_flex_elasticity", "_flex_bending"]


def _names_stored(stmts):
  out = set()
  for s in stmts:
    for n in ast.walk(s):
      if isinstance(n, ast.Name) and isinstance(n.ctx, (ast.Store,)):
        out.add(n.id)
  return out


def _loads(node, killed, out):
  for n in ast.walk(node):
    if isinstance(n, ast.Name) and isinstance(n.ctx, ast.Load) and n.id not in killed:
      out.add(n.id)


def _live_loads(stmts, killed, out):
  """Names read in `stmts` at a point where they may still hold a value assigned BEFORE `stmts`
  (conservative: a name is dead only after an unconditional plain assignment at the same
  nesting level, or inside a loop of which it is the target).  Returns the killed set."""
  killed = set(killed)
  for s in stmts:
    if isinstance(s, ast.Assign):
      _loads(s.value, killed, out)
      for t in s.targets:
        if isinstance(t, ast.Name):
          killed.add(t.id)
        elif isinstance(t, ast.Tuple) and all(isinstance(e, ast.Name) for e in t.elts):
          killed |= {e.id for e in t.elts}
        else:
          _loads(t, killed, out)  # element store reads the container
    elif isinstance(s, ast.For):
      _loads(s.iter, killed, out)
      inner = killed | ({s.target.id} if isinstance(s.target, ast.Name) else set())
      _live_loads(s.body, inner, out)
    elif isinstance(s, ast.If):
      _loads(s.test, killed, out)
      ka = _live_loads(s.body, killed, out)
      kb = _live_loads(s.orelse, killed, out)
      killed = ka & kb
    else:
      _loads(s, killed, out)
  return killed


def normalise_search_loops(fdef, params, TranslateError):
  """Return (new FunctionDef, notes): variables first bound inside a top-level `for` loop and
  read after it are pre-declared (`n = 0`) before the loop; when that variable is the loop
  target the target is renamed and copied at the top of the body.  A non-integer loop-born
  variable makes the unchanged translator fail closed ("loop-carried .. changes type")."""
  fdef = copy.deepcopy(fdef)
  notes = []
  defined = set(params)
  body = fdef.body
  out = []
  for idx, s in enumerate(body):
    if isinstance(s, ast.For) and isinstance(s.target, ast.Name):
      if not (isinstance(s.iter, ast.Call) and isinstance(s.iter.func, ast.Name) and s.iter.func.id == "range"):
        raise TranslateError(f"{fdef.name}:{s.lineno}: for over non-range")
      after = set()
      _live_loads(body[idx + 1 :], set(), after)
      tgt = s.target.id
      born = (_names_stored(s.body) | {tgt}) - defined
      leak = sorted(born & after)
      ln = s.lineno
      for n in leak:
        out.append(ast.Assign(targets=[ast.Name(id=n, ctx=ast.Store())], value=ast.Constant(value=0), lineno=ln))
        notes.append(f"line {ln}: `{n}` pre-declared as 0 before the loop (first bound inside it, read after it)")
      if tgt in leak:
        it = tgt + "__it"
        first = ast.Assign(targets=[ast.Name(id=tgt, ctx=ast.Store())], value=ast.Name(id=it, ctx=ast.Load()), lineno=ln)
        s = ast.For(target=ast.Name(id=it, ctx=ast.Store()), iter=s.iter, body=[first] + s.body, orelse=s.orelse, lineno=ln)
        notes.append(f"line {ln}: loop target `{tgt}` renamed `{it}`; `{tgt} = {it}` is the first statement of the body")
      out.append(s)
      defined |= born
    else:
      out.append(s)
      defined |= _names_stored([s])
  fdef.body = out
  ast.fix_missing_locations(fdef)
  return fdef, notes


def _want_kernel_normalised(tr, kernel, coqname=None):
  """Translator._get_kernel with the search-loop normalisation inserted between parsing and
  translation (same steps otherwise; translate.py is shared and not edited)."""
  import translate as T

  pyf = kernel.func
  pyqual = f"{pyf.__module__}.{pyf.__qualname__}"
  key = ("K", pyqual, coqname)
  if key in tr.funcs:
    return tr.funcs[key]
  try:
    sig = inspect.signature(pyf)
    names = list(sig.parameters)
    ann = dict(getattr(pyf, "__annotations__", {}))
    decl = []
    for n in names:
      a = ann.get(n)
      if isinstance(a, str):
        a = eval(a, pyf.__globals__)
      if a is None:
        raise T.TranslateError(f"{pyqual}: kernel parameter {n} has no annotation")
      decl.append(T.wp_type_to_t(a))
    src = textwrap.dedent(inspect.getsource(pyf))
    fdef = ast.parse(src).body[0]
    fdef, notes = normalise_search_loops(fdef, names, T.TranslateError)
    fn = T._KernelTr(tr, pyf, names, decl, pyqual)
    body, _ = fn.run(fdef)
    tids = [f"tid{i}" for i in range(fn.ntid)]
    cn = coqname or ("k_" + pyf.__name__)
    fi = T.FuncInfo(cn, tids + names + ["atomic_old"], [T.Z] * fn.ntid + decl + [("O",)], ("W",), body, pyqual, fn.deps, fn.shape_params)
    fi.notes = list(fn.notes) + notes
    fi.ntid = fn.ntid
    fi.written = sorted(fn.written)
    tr.funcs[key] = fi
    tr.order.append(key)
    return fi
  except T.TranslateError as e:
    tr.errors[f"kernel:{pyf.__name__}"] = str(e)
    return None
  except Exception as e:  # translator crash = fail closed for that kernel
    tr.errors[f"kernel:{pyf.__name__}"] = f"CRASH {type(e).__name__}: {e}"
    return None


def gen_flex():
  if "k" in _cache:
    return _cache["k"]
  import translate as T

  import mujoco_warp._src.passive as P
  import mujoco_warp._src.smooth as Sm

  tr = T.Translator()
  tr.kernels = {}
  tr.optional_errors = {}
  for mod, names, required in ((Sm, SMOOTH_KERNELS, True), (P, PASSIVE_KERNELS, False)):
    for k in names:
      fi = _want_kernel_normalised(tr, getattr(mod, k))
      if fi is not None:
        tr.kernels[k] = fi
      elif not required:
        # elasticity / bending are outside the proved part (DESIGN C40 "not covered"); their
        # translation failure is reported but does not break the proof obligations
        tr.optional_errors[k] = tr.errors.pop(f"kernel:{k}")
  # flex-vs-plane broadphase (collision_flex.py): the AABB kernel and the plane cull (a @cache_kernel
  # factory; warn_overflow only adds a printf).  Plain translator, no search loop in these.
  import mujoco_warp._src.collision_flex as CF

  for name, kern, coqname in (
    ("_flex_broadphase_bounds", CF._flex_broadphase_bounds, "k__flex_broadphase_bounds"),
    ("_flex_broadphase_plane", CF._flex_broadphase_plane(False), "k__flex_broadphase_plane"),
  ):
    try:
      fi = tr.want_kernel(kern, coqname)
    except Exception as e:  # translator crash = fail closed
      tr.errors[f"kernel:{name}"] = f"CRASH {type(e).__name__}: {e}"
      fi = None
    if fi is not None:
      tr.kernels[name] = fi
    else:
      # want_kernel records the error under the factory kernel's key; make it findable by name
      for k in list(tr.errors):
        if "broadphase" in k and k != f"kernel:{name}":
          tr.errors[f"kernel:{name}"] = tr.errors.pop(k)
  tr.emit(os.path.join(vlib.COQ, "Gen", "T_flex.v"))
  _cache["k"] = tr
  return tr


GENS = {"T_flex": gen_flex}
