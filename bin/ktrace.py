"""Capture REAL kernel launches (inputs before / buffers after) while the unmodified public API
of /repo runs, so that translated kernels can be validated (bin/kvalid.py) and re-executed
under other task orders inside Coq on exactly the data the real pipeline produced.

  with Tracer(wanted) as t:        # wanted: {python qualname of kernel func: FuncInfo}
      mjw.step(m, d)
  t.cases -> list of kvalid case dicts (plus 'order' free to be set by the caller)"""

from __future__ import annotations

import numpy as np


class Tracer:
  def __init__(self, wanted, max_elems=4000, max_tasks=400, per_kernel=2):
    self.wanted = wanted
    self.cases = []
    self.skipped = {}
    self.max_elems, self.max_tasks, self.per_kernel = max_elems, max_tasks, per_kernel
    self.seen = {}

  def __enter__(self):
    import warp as wp

    self.wp = wp
    self.orig = wp.launch
    tracer = self

    def launch(kernel, dim, inputs=(), outputs=(), *a, **kw):
      qual = f"{kernel.func.__module__}.{kernel.func.__qualname__}"
      fi = tracer.wanted.get(qual)
      if fi is None:
        return tracer.orig(kernel, dim, inputs, outputs, *a, **kw)
      args = list(inputs) + list(outputs)
      why = tracer._eligible(fi, dim, args)
      if why is not None or tracer.seen.get(qual, 0) >= tracer.per_kernel:
        if why:
          tracer.skipped[qual] = why
        return tracer.orig(kernel, dim, inputs, outputs, *a, **kw)
      nt = fi.ntid
      params = list(zip(fi.argnames[nt:-1], fi.argtypes[nt:-1]))
      before, bind, ptr2buf = {}, {}, {}
      for (p, t), v in zip(params, args):
        if t[0] == "A":
          b = ptr2buf.setdefault(v.ptr, p)
          bind[p] = b
          if b == p:
            before[p] = v.numpy().copy()
      r = tracer.orig(kernel, dim, inputs, outputs, *a, **kw)
      wp.synchronize()
      case_args = {}
      after = {}
      for (p, t), v in zip(params, args):
        if t[0] == "A":
          case_args[p] = before[bind[p]]
          if bind[p] == p:
            after[p] = v.numpy().copy()
        else:
          case_args[p] = v.value if hasattr(v, "value") else v
      tracer.seen[qual] = tracer.seen.get(qual, 0) + 1
      tracer.cases.append(dict(kernel=kernel, fi=fi, dim=dim, args=case_args, bind=bind, written=list(getattr(fi, "written", [])), after=after, qual=qual))
      return r

    wp.launch = launch
    return self

  def __exit__(self, *a):
    self.wp.launch = self.orig

  def _eligible(self, fi, dim, args):
    nt = fi.ntid
    params = list(zip(fi.argnames[nt:-1], fi.argtypes[nt:-1]))
    if len(params) != len(args):
      return f"arity {len(args)} vs {len(params)}"
    dims = dim if isinstance(dim, (tuple, list)) else (dim,)
    ntask = int(np.prod([int(x) for x in dims])) if len(dims) else 1
    if ntask > self.max_tasks or ntask == 0:
      return f"{ntask} tasks"
    for (p, t), v in zip(params, args):
      if t[0] == "A":
        if not hasattr(v, "numpy"):
          return f"{p}: not an array"
        if v.ndim != t[2]:
          return f"{p}: rank {v.ndim} vs annotated {t[2]}"
        if v.size > self.max_elems:
          return f"{p}: {v.size} elements"
    return None
