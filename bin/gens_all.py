"""T generator "T_<module>": every translatable @wp.func and plain @wp.kernel of a module ->
coq/Gen/T_<module>.v.  Functions/kernels outside the supported subset are listed in
`tr.errors` (fail-closed per function).  The result measures how much of /repo's device code
is inside the Gallina model on every run."""

from __future__ import annotations

import importlib
import os

import vlib

MODULES = [
  "math", "forward", "smooth", "passive", "sensor", "support", "solver", "constraint", "island", "sleep", "history",
  "collision_core", "collision_driver", "collision_primitive_core", "util_misc", "derivative", "inverse", "ray",
  "render_util", "set_const", "bvh", "collision_gjk", "collision_sdf", "collision_flex",
]  # fmt: skip

_cache = {}


def make(modname):
  def gen():
    if modname in _cache:
      return _cache[modname]
    import warp as wp

    import translate as T

    m = importlib.import_module("mujoco_warp._src." + modname)
    tr = T.Translator()
    tr.kernels = {}
    tr.counts = {"funcs": 0, "funcs_ok": 0, "kernels": 0, "kernels_ok": 0}
    for n, v in list(vars(m).items()):
      if isinstance(v, wp.Function) and v.func is not None and v.func.__module__ == m.__name__:
        tr.counts["funcs"] += 1
        try:
          r = tr.want(m.__name__, n)
        except Exception as e:  # translator crash = fail closed for that function
          tr.errors[f"{m.__name__}.{n}"] = f"CRASH {type(e).__name__}: {e}"
          r = None
        tr.counts["funcs_ok"] += r is not None
      elif isinstance(v, wp.Kernel) and v.func.__module__ == m.__name__:
        tr.counts["kernels"] += 1
        try:
          r = tr.want_kernel(v)
        except Exception as e:
          tr.errors[f"kernel:{n}"] = f"CRASH {type(e).__name__}: {e}"
          r = None
        if r is not None:
          tr.kernels[n] = r
          tr.counts["kernels_ok"] += 1
    tr.emit(os.path.join(vlib.COQ, "Gen", f"T_{modname}.v"))
    _cache[modname] = tr
    return tr

  return gen


GENS = {f"T_{m}": make(m) for m in MODULES}
