"""T generators for the broadphase filter functions of collision_driver.py (C18).

`_plane_filter`, `_sphere_filter`, `_aabb_filter` are pure @wp.func and translate.  `_obb_filter` (row
assignment on a local matrix) and collision_core.sap_binary_search (`while`, generic array argument) are
outside the translator's subset; they are requested too so that the failure is recorded in `errors`
(fail-closed for whoever lists them in required_funcs) and are hand-modelled / oracle-tested by C18."""

from __future__ import annotations

import os

import vlib

_cache = {}


def gen_broadphase():
  import translate as T

  if "broadphase" in _cache:
    return _cache["broadphase"]
  import mujoco_warp._src.collision_core as cc
  import mujoco_warp._src.collision_driver as cd

  tr = T.Translator()
  for n in ("_plane_filter", "_sphere_filter", "_aabb_filter", "_obb_filter"):
    tr.want(cd.__name__, n)
  tr.want(cc.__name__, "sap_binary_search")
  tr.emit(os.path.join(vlib.COQ, "Gen", "broadphase.v"), "")
  _cache["broadphase"] = tr
  return tr


GENS = {"broadphase": gen_broadphase}
