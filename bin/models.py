"""Random MJCF model generator shared by the implementation-level oracles.

Every random choice is drawn from the numpy Generator passed in, so a (seed, options)
pair replays exactly.  Models are kept inside what mujoco_warp.put_model accepts."""

from __future__ import annotations

import numpy as np


def _f(x):
  return " ".join(f"{float(v):.6g}" for v in np.atleast_1d(x))


class Opts:
  def __init__(self, **kw):
    self.nbody = (2, 7)
    self.max_children = 3
    self.joint_types = ("hinge", "slide", "ball", "free")
    self.multi_joint = 0.3
    self.welded = 0.15
    self.mocap = 0.0
    self.geom_types = ("sphere", "capsule", "box", "ellipsoid", "cylinder")
    self.plane = False
    self.sites = 0.5
    self.cameras = 0.0
    self.lights = 0.0
    self.actuators = 0
    self.act_kinds = ("motor", "position", "velocity", "general")
    self.tendons = 0
    self.equality = 0
    self.limits = 0.0
    self.damping = 0.5
    self.stiffness = 0.3
    self.armature = 0.3
    self.frictionloss = 0.0
    self.gravity = True
    self.contacts = False
    self.option = ""
    self.free_only_root = True
    self.sensors = 0
    self.keyframes = 0
    self.margin = 0.0
    self.condim = (3,)
    self.spread = 0.3
    self.__dict__.update(kw)


def random_model(rng: np.random.Generator, o: Opts | None = None):
  """Return (xml, info)."""
  o = o or Opts()
  nb = int(rng.integers(o.nbody[0], o.nbody[1] + 1))
  parents = [-1]
  for b in range(1, nb):
    cand = [p for p in range(-1, b) if sum(1 for q in parents if q == p) < o.max_children]
    parents.append(int(rng.choice(cand)))
  children = {b: [c for c in range(nb) if parents[c] == b] for b in range(-1, nb)}
  joints, body_names = [], []
  sites, geoms = [], []
  info = {"nbody": nb, "parents": parents, "joints": joints, "sites": sites}
  jid = [0]
  contype = "1" if o.contacts else "0"

  def geom_xml(name):
    gt = str(rng.choice(o.geom_types))
    if gt == "sphere":
      size = _f([rng.uniform(0.04, 0.12)])
    elif gt in ("capsule", "cylinder"):
      size = _f([rng.uniform(0.03, 0.08), rng.uniform(0.05, 0.15)])
    else:
      size = _f(rng.uniform(0.03, 0.12, 3))
    pos = _f(rng.normal(0, 0.05, 3))
    quat = _f(rng.normal(0, 1, 4))
    extra = ""
    if o.margin:
      extra += f' margin="{_f([o.margin])}"'
    cd = int(rng.choice(o.condim))
    geoms.append(name)
    return f'<geom name="{name}" type="{gt}" size="{size}" pos="{pos}" quat="{quat}" contype="{contype}" conaffinity="{contype}" condim="{cd}" density="{_f([rng.uniform(300, 2000)])}"{extra}/>'

  def body_xml(b, depth):
    name = f"b{b}"
    body_names.append(name)
    pos = _f(rng.normal(0, o.spread, 3) + (np.array([0, 0, 0.6]) if parents[b] == -1 else 0))
    quat = _f(rng.normal(0, 1, 4))
    s = f'<body name="{name}" pos="{pos}" quat="{quat}"'
    is_mocap = parents[b] == -1 and rng.random() < o.mocap
    if is_mocap:
      s += ' mocap="true"'
    s += ">"
    welded = is_mocap or rng.random() < o.welded
    if not welded:
      nj = 1 + (1 if rng.random() < o.multi_joint else 0) + (1 if rng.random() < o.multi_joint / 2 else 0)
      first = True
      had_ball = False
      for _ in range(nj):
        allowed = [t for t in o.joint_types if t != "free" or (parents[b] == -1 and first)]
        if not first:
          allowed = [t for t in allowed if t in ("hinge", "slide")]
          if had_ball:
            allowed = [t for t in allowed if t == "slide"]
        if not allowed:
          break
        jt = str(rng.choice(allowed))
        jn = f"j{jid[0]}"
        jid[0] += 1
        if jt == "free":
          s += f'<joint name="{jn}" type="free"/>' if False else f'<freejoint name="{jn}"/>'
          joints.append((jn, jt, b))
          break
        had_ball = had_ball or jt == "ball"
        attrs = f'name="{jn}" type="{jt}" pos="{_f(rng.normal(0, 0.05, 3))}"'
        if jt != "ball":
          attrs += f' axis="{_f(rng.normal(0, 1, 3))}"'
        if rng.random() < o.damping:
          attrs += f' damping="{_f([rng.uniform(0.01, 1)])}"'
        if rng.random() < o.stiffness:
          attrs += f' stiffness="{_f([rng.uniform(0.1, 5)])}"'
          if jt != "ball":
            attrs += f' springref="{_f([rng.normal(0, 0.3)])}"'
        if rng.random() < o.armature:
          attrs += f' armature="{_f([rng.uniform(0.001, 0.1)])}"'
        if rng.random() < o.frictionloss:
          attrs += f' frictionloss="{_f([rng.uniform(0.01, 0.5)])}"'
        if rng.random() < o.limits:
          if jt == "ball":
            attrs += f' limited="true" range="0 {_f([rng.uniform(0.2, 1.5)])}"'
          else:
            lo = rng.uniform(-1.0, 0.0)
            attrs += f' limited="true" range="{_f([lo])} {_f([lo + rng.uniform(0.1, 1.5)])}"'
        s += f"<joint {attrs}/>"
        joints.append((jn, jt, b))
        first = False
    ng = 1 + (1 if rng.random() < 0.3 else 0)
    for g in range(ng):
      s += geom_xml(f"g{b}_{g}")
    if rng.random() < o.sites:
      sn = f"s{b}"
      sites.append(sn)
      s += f'<site name="{sn}" pos="{_f(rng.normal(0, 0.1, 3))}" quat="{_f(rng.normal(0, 1, 4))}" size="0.01"/>'
    if rng.random() < o.cameras:
      s += f'<camera name="c{b}" pos="{_f(rng.normal(0, 0.3, 3))}" quat="{_f(rng.normal(0, 1, 4))}"/>'
    if rng.random() < o.lights:
      s += f'<light name="l{b}" pos="{_f(rng.normal(0, 0.3, 3))}" dir="{_f(rng.normal(0, 1, 3))}"/>'
    for c in children[b]:
      s += body_xml(c, depth + 1)
    s += "</body>"
    return s

  wb = ""
  if o.plane:
    wb += f'<geom name="floor" type="plane" size="5 5 .1" contype="{contype}" conaffinity="{contype}"/>'
  for b in children[-1]:
    wb += body_xml(b, 0)
  xml = "<mujoco>"
  xml += f'<option gravity="{"0 0 -9.81" if o.gravity else "0 0 0"}" {o.option}/>'
  xml += f"<worldbody>{wb}</worldbody>"
  scalar_joints = [j for j in joints if j[1] in ("hinge", "slide")]
  if o.tendons and len(scalar_joints) >= 2:
    xml += "<tendon>"
    info["tendons"] = []
    for t in range(o.tendons):
      k = int(rng.integers(2, min(4, len(scalar_joints)) + 1))
      idx = rng.choice(len(scalar_joints), k, replace=False)
      xml += f'<fixed name="t{t}">' + "".join(f'<joint joint="{scalar_joints[i][0]}" coef="{_f([rng.normal(0, 1)])}"/>' for i in idx) + "</fixed>"
      info["tendons"].append(f"t{t}")
    if len(sites) >= 2:
      i, j = rng.choice(len(sites), 2, replace=False)
      xml += f'<spatial name="ts"><site site="{sites[i]}"/><site site="{sites[j]}"/></spatial>'
      info["tendons"].append("ts")
    xml += "</tendon>"
  if o.actuators and joints:
    xml += "<actuator>"
    info["actuators"] = []
    for a in range(o.actuators):
      j = joints[int(rng.integers(len(joints)))]
      if j[1] in ("free", "ball") and rng.random() < 0.7 and scalar_joints:
        j = scalar_joints[int(rng.integers(len(scalar_joints)))]
      kind = str(rng.choice(o.act_kinds))
      common = f'name="a{a}" joint="{j[0]}"'
      if j[1] in ("free", "ball"):
        common += f' gear="{_f(rng.normal(0, 1, 6))}"'
      else:
        common += f' gear="{_f([rng.normal(0, 2)])}"'
      if rng.random() < 0.5:
        common += ' ctrllimited="true" ctrlrange="-0.7 0.9"'
      if rng.random() < 0.4:
        common += ' forcelimited="true" forcerange="-0.5 0.6"'
      if kind == "motor":
        xml += f"<motor {common}/>"
      elif kind == "position":
        xml += f'<position {common} kp="{_f([rng.uniform(1, 20)])}" kv="{_f([rng.uniform(0, 2)])}"/>'
      elif kind == "velocity":
        xml += f'<velocity {common} kv="{_f([rng.uniform(0.1, 5)])}"/>'
      else:
        dyn = str(rng.choice(["none", "integrator", "filter", "filterexact"]))
        dp = f'dynprm="{_f([rng.uniform(0.01, 0.5)])} 0 0"' if dyn != "none" else ""
        xml += (
          f'<general {common} dyntype="{dyn}" {dp} gaintype="fixed" gainprm="{_f([rng.uniform(0.5, 5)])} 0 0" '
          f'biastype="affine" biasprm="{_f(rng.normal(0, 1, 3))}"' + (' actearly="true"' if rng.random() < 0.3 and dyn != "none" else "") + "/>"
        )
      info["actuators"].append(f"a{a}")
    xml += "</actuator>"
  if o.equality and nb >= 2:
    xml += "<equality>"
    for q in range(o.equality):
      kind = str(rng.choice(["connect", "weld", "joint"]))
      if kind == "joint" and len(scalar_joints) >= 2:
        i, j = rng.choice(len(scalar_joints), 2, replace=False)
        xml += f'<joint joint1="{scalar_joints[i][0]}" joint2="{scalar_joints[j][0]}" polycoef="{_f(rng.normal(0, 0.5, 5))}"/>'
      else:
        i, j = rng.choice(nb, 2, replace=False)
        if kind == "weld":
          xml += f'<weld body1="b{i}" body2="b{j}"/>'
        else:
          xml += f'<connect body1="b{i}" body2="b{j}" anchor="{_f(rng.normal(0, 0.1, 3))}"/>'
    xml += "</equality>"
  xml += "</mujoco>"
  return xml, info


def random_state(rng, m, d, vel_scale=1.0, unnormalized=True):
  """Fill MjData qpos/qvel/act/ctrl/mocap with random values (float32-representable)."""
  import mujoco

  qpos = rng.normal(0, 0.6, m.nq)
  for j in range(m.njnt):
    adr = m.jnt_qposadr[j]
    if m.jnt_type[j] == mujoco.mjtJoint.mjJNT_FREE:
      q = rng.normal(0, 1, 4) * (10.0 ** rng.uniform(-1, 1) if unnormalized else 1)
      if not unnormalized:
        q /= np.linalg.norm(q)
      qpos[adr + 3 : adr + 7] = q
      qpos[adr + 2] += 0.5
    elif m.jnt_type[j] == mujoco.mjtJoint.mjJNT_BALL:
      q = rng.normal(0, 1, 4) * (10.0 ** rng.uniform(-1, 1) if unnormalized else 1)
      if not unnormalized:
        q /= np.linalg.norm(q)
      qpos[adr : adr + 4] = q
  d.qpos[:] = qpos.astype(np.float32)
  d.qvel[:] = (rng.normal(0, vel_scale, m.nv)).astype(np.float32)
  if m.na:
    d.act[:] = rng.normal(0, 0.5, m.na).astype(np.float32)
  if m.nu:
    d.ctrl[:] = rng.normal(0, 1.0, m.nu).astype(np.float32)
  if m.nmocap:
    d.mocap_pos[:] = rng.normal(0, 0.5, (m.nmocap, 3)).astype(np.float32)
    q = rng.normal(0, 1, (m.nmocap, 4))
    d.mocap_quat[:] = (q / np.linalg.norm(q, axis=1, keepdims=True)).astype(np.float32)
  return d
