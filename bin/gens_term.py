"""Generator "solver_term" -> Gen/solver_term.v  (C25 / C38).

T part: `solver._rescale` translated to Gallina (the normalisation of the termination tests).
S part: the done-guard table of every kernel launched (transitively) inside
`solver._solver_iteration`, obtained with a small `ast` pass over /repo's source:

  for every launch:  kernel, actual output fields (callee parameters substituted by the
  arguments of the enclosing host calls), and for every array STORE of the kernel the guard
  that dominates it:
    done   `if <p>[w]: return` (top level) or `if <p>[w]: continue` (inside the enclosing loop)
           executed before the store, where parameter <p> is bound to ctx.done at the launch and
           the store's leading index is the same expression w;
    count  the store is control dependent on n > 0 where n = <q>[worldid] and <q> is bound to
           ctx.quad_changed_count (zeroed for EVERY world at the start of the iteration by
           _zero_change_counters and incremented only by kernels that are themselves done-guarded);
    none   otherwise.
  A launch is `ok` when every store into a field that is not on the SCRATCH list is guarded.

Fast-path skips.  For every launch the pass also lists the early returns taken when a per-world CHANGE
COUNTER is zero (`if <c>[worldid] == 0: return`, directly or through a local, possibly wrapped in
`if wp.static(FLAG):`), the launch argument the counter parameter is bound to when that code is compiled
in, and the fields stored after it (iter_skip_table).  Pin: skipping the rebuild of anything but the
Hessian ctx.h (gradient, qfrc_constraint, search direction, newton_decrement, ...) may depend on
ctx.state_changed_count (or d.nefc outside the stable-state fast path) only - ctx.quad_changed_count
misses friction rows that flip LINEARNEG <-> LINEARPOS, after which the direction must be recomputed.

The table is emitted as Coq data (iter_guard_table) so that a vm_compute fact can join it with
the launch list that Gen/Skel_pipeline.v + Model/Pipeline.flatten derive independently."""

from __future__ import annotations

import ast
import os

import vlib

_cache = {}

SRC = "mujoco_warp/_src"

# Solver-context fields a done world may see rewritten (e.g. _solve_beta_zero, _zero_change_counters,
# ctx.search_unchanged stored before the guard, ctx.mv/ctx.jv when `skip` is ctx.search_unchanged).
# Soundness of the list does not depend on what they contain: if NO launch of the iteration stores
# into a non-scratch field of a done world, those fields are bit-identical after extra iterations.
# What is required of a scratch field: it is solver-internal (ctx.*, dropped when solve returns) and
# is not read by the launches that follow the loop in _solve (checked: post_loop_reads).
SCRATCH = ("ctx.quad_changed_count", "ctx.state_changed_count", "ctx.beta", "ctx.beta_den", "ctx.search_unchanged", "ctx.Mgrad", "ctx.mv", "ctx.jv")
GLOBAL = ("nsolving",)  # not per-world: the guard's index need not be the store's index
DONE_FIELD = "ctx.done"
COUNT_FIELD = "ctx.quad_changed_count"
ROOT = "solver._solver_iteration"

STORE_CALLS = ("wp.atomic_add", "wp.atomic_sub", "wp.atomic_max", "wp.atomic_min", "wp.tile_store", "wp.tile_atomic_add")


class TermGen:
  def __init__(self):
    self.errors = {}
    self.rows = []  # one per launch
    self.post_loop_reads = []
    self.tr = None

  def signatures(self):
    return self.tr.signatures()


# ---- kernel source lookup ---------------------------------------------------------------
def _kernel_defs(repo, mod):
  """{name: [FunctionDef of the @wp.kernel bodies reachable under that top-level name]}"""
  tree = ast.parse(open(os.path.join(repo, SRC, mod + ".py")).read())
  out = {}
  for n in tree.body:
    if not isinstance(n, ast.FunctionDef):
      continue
    decos = [ast.unparse(d) for d in n.decorator_list]
    if any(d.startswith("wp.kernel") for d in decos):
      out[n.name] = [n]
    else:
      inner = [x for x in ast.walk(n) if isinstance(x, ast.FunctionDef) and x is not n and any(ast.unparse(d).startswith("wp.kernel") for d in x.decorator_list)]
      if inner:
        out[n.name] = inner
  return out


READ_CALLS = ("wp.tile_load", "wp.tile", "wp.min", "wp.max", "min", "max", "wp.sqrt", "float", "int", "wp.abs", "wp.printf", "range")


def _lead(sub):
  """(root Name id, text of the leading index) of a Name / Subscript chain."""
  lead = None
  a = sub
  while isinstance(a, ast.Subscript):
    sl = a.slice.elts[0] if isinstance(a.slice, ast.Tuple) else a.slice
    lead = ast.unparse(sl)
    a = a.value
  return (a.id if isinstance(a, ast.Name) else None), lead


def _store_targets(s, params, outparams):
  """[(array parameter, leading index text)] possibly stored by the simple statement s:
  subscript assignment, atomic / tile store, or an output array (view) handed to a callee."""
  out = []
  for x in ast.walk(s):
    if isinstance(x, (ast.Assign, ast.AugAssign)):
      tg = x.targets if isinstance(x, ast.Assign) else [x.target]
      for t in tg:
        if isinstance(t, ast.Subscript):
          root, lead = _lead(t)
          if root in params:
            out.append((root, lead or "?"))
    if isinstance(x, ast.Call):
      f = ast.unparse(x.func)
      if (f in STORE_CALLS or f.startswith("wp.atomic_")) and x.args:
        root, lead = _lead(x.args[0])
        if root in params:
          if lead is None and len(x.args) > 1:
            lead = ast.unparse(x.args[1])
          out.append((root, lead or "?"))
      elif f not in READ_CALLS:
        for a in x.args:
          root, lead = _lead(a)
          if root in outparams and isinstance(a, (ast.Subscript, ast.Name)) and (lead is None or isinstance(a, ast.Subscript)):
            # an output array or a row view of it passed to a function: the callee may store into it
            if isinstance(a, ast.Name) or _is_view(a):
              out.append((root, lead or "?"))
  return out


def _is_view(a):
  # arr[w] of a 2-D/3-D output used as an argument (a row view), not an element read
  return isinstance(a, ast.Subscript) and not isinstance(a.slice, ast.Tuple)


def _is_exit(body, kind):
  return len(body) == 1 and isinstance(body[0], kind)


def _analyse_kernel(fn, outparams):
  """[(array param, leading index, [guards])]; a guard is ('done', param, index text, static flag or None)
  or ('count', param)."""
  params = {a.arg for a in fn.args.args}
  stores = []
  counts = {}  # local name -> count parameter it was read from (n = q[worldid])

  def is_static(test):
    return isinstance(test, ast.Call) and ast.unparse(test.func) == "wp.static"

  def guards_when_false(test, flag):
    out = []
    if isinstance(test, ast.Subscript) and isinstance(test.value, ast.Name) and test.value.id in params:
      out.append(("done", test.value.id, ast.unparse(test.slice), flag))
    if isinstance(test, ast.BoolOp) and isinstance(test.op, ast.Or):
      for v in test.values:
        out += guards_when_false(v, flag)
    if isinstance(test, ast.Compare) and len(test.ops) == 1 and isinstance(test.ops[0], ast.Eq):
      l, r = test.left, test.comparators[0]
      if isinstance(l, ast.Name) and l.id in counts and isinstance(r, ast.Constant) and r.value == 0 and flag is None:
        out.append(("count", counts[l.id]))
    return out

  def walk(stmts, ctx, in_loop):
    ctx = list(ctx)
    for s in stmts:
      if isinstance(s, ast.Assign) and len(s.targets) == 1 and isinstance(s.targets[0], ast.Name):
        v = s.value
        if isinstance(v, ast.Subscript) and isinstance(v.value, ast.Name) and v.value.id in params and ast.unparse(v.slice) == "worldid":
          counts[s.targets[0].id] = v.value.id
      if isinstance(s, ast.If):
        if not s.orelse and (_is_exit(s.body, ast.Return) or (in_loop and _is_exit(s.body, ast.Continue))):
          ctx += guards_when_false(s.test, None)
          continue
        if is_static(s.test) and len(s.body) == 1 and isinstance(s.body[0], ast.If) and not s.orelse:
          b = s.body[0]
          if _is_exit(b.body, ast.Return) and not b.orelse:
            # `if wp.static(flag): if skip[w]: return` -- the guard exists only when flag holds
            ctx += guards_when_false(b.test, ast.unparse(s.test.args[0]))
            continue
        walk(s.body, ctx, in_loop)
        walk(s.orelse, ctx, in_loop)
        continue
      if isinstance(s, ast.For):
        c2 = list(ctx)
        it = s.iter
        if isinstance(it, ast.Call) and ast.unparse(it.func) == "range" and it.args:
          bound = it.args[0] if len(it.args) == 1 else it.args[1]
          if isinstance(bound, ast.Name) and bound.id in counts:
            c2.append(("count", counts[bound.id]))
        walk(s.body, c2, True)
        continue
      if isinstance(s, ast.While):
        walk(s.body, ctx, True)
        continue
      if isinstance(s, ast.With):
        walk(s.body, ctx, in_loop)
        continue
      for arr, lead in _store_targets(s, params, outparams):
        stores.append((arr, lead, list(ctx)))

  walk(fn.body, [], False)
  return stores


def _skip_returns(fn, params, outparams):
  """[(counter parameter, static flag or None, [(array param, lead)] stored afterwards)] for every early
  `return` taken when <param>[worldid] == 0 (tested directly or through a local assigned from it)."""
  out = []
  local = {}

  def counter_of(test):
    if isinstance(test, ast.Compare) and len(test.ops) == 1 and isinstance(test.ops[0], ast.Eq):
      l, r = test.left, test.comparators[0]
      if isinstance(r, ast.Constant) and r.value == 0:
        if isinstance(l, ast.Subscript) and isinstance(l.value, ast.Name) and l.value.id in params:
          return l.value.id
        if isinstance(l, ast.Name) and l.id in local:
          return local[l.id]
    return None

  def stores_in(stmts):
    acc = []
    for st in stmts:
      for x in ast.walk(st):
        if isinstance(x, (ast.Assign, ast.AugAssign, ast.Expr)):
          acc += _store_targets(x, params, outparams)
    return list(dict.fromkeys(acc))

  def walk(stmts):
    for i, st in enumerate(stmts):
      if isinstance(st, ast.Assign) and len(st.targets) == 1 and isinstance(st.targets[0], ast.Name):
        v = st.value
        if isinstance(v, ast.Subscript) and isinstance(v.value, ast.Name) and v.value.id in params:
          local[st.targets[0].id] = v.value.id
      if isinstance(st, ast.If) and not st.orelse:
        if _is_exit(st.body, ast.Return):
          c = counter_of(st.test)
          if c is not None:
            out.append((c, None, stores_in(stmts[i + 1 :])))
        elif isinstance(st.test, ast.Call) and ast.unparse(st.test.func) == "wp.static" and len(st.body) == 1 and isinstance(st.body[0], ast.If):
          b = st.body[0]
          if _is_exit(b.body, ast.Return) and not b.orelse:
            c = counter_of(b.test)
            if c is not None:
              out.append((c, ast.unparse(st.test.args[0]), stores_in(stmts[i + 1 :])))

  walk(fn.body)
  return out


def _bound_when_flag(text, factory_args):
  """Launch argument text -> the expression it denotes when the factory flag that compiles the skip in is
  true: `A if flag else B` with `flag` among the factory arguments denotes A."""
  try:
    e = ast.parse(text, mode="eval").body
  except SyntaxError:
    return text
  if isinstance(e, ast.IfExp) and ast.unparse(e.test) in [a.split("=")[-1].strip() for a in factory_args]:
    return ast.unparse(e.body)
  return text


def _options(text):
  """The fields an argument text may denote: both branches of a host-side `A if c else B`."""
  try:
    e = ast.parse(text, mode="eval").body
  except SyntaxError:
    return [text]
  if isinstance(e, ast.IfExp):
    return _options(ast.unparse(e.body)) + _options(ast.unparse(e.orelse))
  return [text]


SKIP_OK_COUNTERS = ("ctx.state_changed_count", "d.nefc")  # d.nefc: `changed` outside the stable-state fast path
HESSIAN_ONLY = ("ctx.h",)


# ---- host walk with parameter substitution ---------------------------------------------------
def _launches(prog, root):
  """All launches reachable from `root`, callee parameters (and simple local assignments) substituted
  by the text of what they are bound to.  Undecided conditions: both branches.  Also returns the
  kernel-variable aliases (x = factory(..))."""
  out = []
  alias = {}

  def bind(fn, args, kwargs, env):
    e = {}
    for i, p in enumerate(fn["args"]):
      if i < len(args):
        e[p] = env.get(args[i], args[i])
      elif p in kwargs:
        e[p] = env.get(kwargs[p], kwargs[p])
      else:
        e[p] = fn["defaults"][i]
    return e

  def walk(stmts, env, stack, mod):
    for s in stmts:
      k = s["k"]
      if k == "launch":
        out.append({
          "kernel": s["kernel"], "factory_args": s["factory_args"], "line": s["line"], "host": stack[-1],
          "ins": [env.get(a, a) for a in s["ins"]], "outs": [env.get(a, a) for a in s["outs"]],
        })  # fmt: skip
      elif k == "call":
        f = s["f"]
        if f in prog and f not in stack:
          walk(prog[f]["body"], bind(prog[f], s["args"], s["kwargs"], env), stack + [f], f.split(".")[0])
        if "assign_to" in s:
          alias[f"{mod}.{s['assign_to']}"] = f if "." in f else f"{mod}.{f}"
          env[s["assign_to"]] = f"{f}(..)"
      elif k == "assign":
        # a local rebinding hides the parameter: later launches see the expression text
        env[s["name"]] = s["expr"]
      elif k == "if":
        walk(s["then"], env, stack, mod)
        walk(s["else"], env, stack, mod)
      elif k == "loop":
        walk(s["body"], env, stack, mod)
      elif k in ("zero", "fill", "copy"):
        fld = s.get("field", s.get("dst"))
        out.append({"kernel": "host." + k, "factory_args": [], "line": s["line"], "host": stack[-1], "ins": [], "outs": [env.get(fld, fld)]})

  fn = prog[root]
  walk(fn["body"], {p: p for p in fn["args"]}, [root], root.split(".")[0])
  return out, alias


def analyse(repo):
  import extract_launch as E

  prog, _ = E.extract_all(repo)
  launches, alias = _launches(prog, ROOT)
  kdefs = {}
  rows = []
  seen = set()
  for L in launches:
    kname = alias.get(L["kernel"], L["kernel"])
    key = (L["kernel"], tuple(L["outs"]), tuple(L["ins"]))
    if key in seen:
      continue
    seen.add(key)
    row = {"kernel": L["kernel"], "resolved": kname, "host": L["host"], "line": L["line"], "outs": L["outs"], "guards": [], "stores": []}
    protected = [o for o in L["outs"] if o not in SCRATCH]
    row["protected_outs"] = protected
    if kname.startswith("host."):
      row["verdict"] = "ok" if not protected else "unguarded"
      row["why"] = "host-side whole-array write"
      rows.append(row)
      continue
    mod, name = kname.split(".", 1)
    if mod not in kdefs:
      try:
        kdefs[mod] = _kernel_defs(repo, mod)
      except FileNotFoundError:
        kdefs[mod] = {}
    fns = kdefs[mod].get(name)
    if not fns:
      row["verdict"] = "unresolved"
      row["why"] = f"kernel source {kname} not found"
      rows.append(row)
      continue
    verdict = "ok"
    why = []
    actual = L["ins"] + L["outs"]
    for fn in fns:
      pnames = [a.arg for a in fn.args.args]
      if len(pnames) != len(actual):
        verdict = "unresolved"
        why.append(f"{fn.name}: {len(pnames)} parameters but {len(actual)} launch arguments")
        continue
      b = dict(zip(pnames, actual))
      outparams = set(pnames[len(L["ins"]) :])
      for cpar, flag, after in _skip_returns(fn, set(pnames), outparams):
        bound = _bound_when_flag(b.get(cpar, cpar), L["factory_args"]) if flag is not None else b.get(cpar, cpar)
        if "changed_count" not in bound and "changed_count" not in cpar and bound != "d.nefc":
          continue  # not a change counter (e.g. a size test)
        fields = list(dict.fromkeys(b.get(a_, a_) for a_, _ in after))
        opts = _options(bound)
        okk = all(o in SKIP_OK_COUNTERS for o in opts) or all(f in HESSIAN_ONLY for f in fields)
        row.setdefault("skips", []).append({"param": cpar, "static": flag, "bound": opts, "stores_after": fields, "ok": okk})
      for arr, lead, ctx in _analyse_kernel(fn, outparams):
        field = b.get(arr, arr)
        if arr not in outparams:
          verdict = "unguarded"
          why.append(f"store into INPUT parameter {arr} (bound to {field})")
        gs = []
        for g in ctx:
          if g[0] == "done" and b.get(g[1]) == DONE_FIELD:
            if g[3] is not None and "True" not in L["factory_args"]:
              continue  # guard compiled in only under a factory flag that is not literally True here
            if g[2] == lead or field in GLOBAL:
              gs.append(f"done:{g[1]}[{g[2]}]")
          if g[0] == "count" and b.get(g[1]) == COUNT_FIELD and lead == "worldid":
            gs.append(f"count:{g[1]}")
        row["stores"].append({"array": arr, "field": field, "lead": lead, "guards": gs})
        if field in SCRATCH:
          continue
        if not gs:
          verdict = "unguarded"
          why.append(f"store to {field} ({arr}[{lead},..]) is not dominated by a test of ctx.done[{lead}]")
        else:
          for g in gs:
            if g not in row["guards"]:
              row["guards"].append(g)
    if verdict == "ok" and not protected:
      why.append("writes scratch fields only")
    row["verdict"] = verdict
    row["why"] = "; ".join(dict.fromkeys(why))
    rows.append(row)
  # the count guard is sound only if the counter is reset for every world in the iteration and every
  # other store into it is done-guarded
  cnt_rows = [r for r in rows if COUNT_FIELD in r["outs"]]
  reset_ok = any(r["resolved"].endswith("_zero_change_counters") for r in cnt_rows)
  others_ok = all(r["resolved"].endswith("_zero_change_counters") or all(st["guards"] for st in r["stores"] if st["field"] == COUNT_FIELD) for r in cnt_rows)
  for r in rows:
    if any(g.startswith("count:") for g in r["guards"]) and not any(g.startswith("done:") for g in r["guards"]):
      if not (reset_ok and others_ok):
        r["verdict"] = "unguarded"
        r["why"] = "count guard without an unconditional reset + done-guarded writers of " + COUNT_FIELD
  # scratch fields must not be read once the loop is over (the launches that follow it in _solve)
  post_reads = []
  seen_loop = False

  def coll(stmts):
    for s in stmts:
      if s["k"] == "launch":
        post_reads.extend(s["ins"] + s["outs"])
      elif s["k"] == "if":
        coll(s["then"])
        coll(s["else"])
      elif s["k"] == "loop":
        coll(s["body"])
      elif s["k"] == "call":
        post_reads.extend(s["args"])
        post_reads.extend(s["kwargs"].values())

  for s in prog["solver._solve"]["body"]:
    if "_solver_iteration" in repr(s):
      seen_loop = True
      continue
    if seen_loop:
      coll([s])
  if not seen_loop:
    post_reads.append("?loop-not-found")
  return rows, post_reads


def _coq_str(x):
  return '"' + str(x).replace("\\", "\\\\").replace('"', "'").replace("\n", " ") + '"'


def gen_solver_term():
  if "t" in _cache:
    return _cache["t"]
  import translate as T

  import mujoco_warp._src.solver as sv

  g = TermGen()
  tr = T.Translator()
  if hasattr(sv, "_rescale"):
    tr.want(sv.__name__, "_rescale")
  else:
    tr.errors[f"{sv.__name__}._rescale"] = "function no longer exists in solver.py"
  g.tr = tr
  g.errors.update(tr.errors)
  try:
    g.rows, g.post_loop_reads = analyse(vlib.REPO)
  except Exception as e:  # fail closed
    g.errors["solver.guard_table"] = f"{type(e).__name__}: {e}"
    g.rows, g.post_loop_reads = [], ["?"]
  text = tr.emit(None)
  tab = "; ".join(
    f"({_coq_str(r['kernel'])}, ({_coq_str(r['verdict'])}, [{'; '.join(_coq_str(o) for o in r['outs'])}]))" for r in g.rows
  )
  text += (
    "\n(* S: done-guard table of the kernels launched inside solver._solver_iteration (bin/gens_term.py) *)\n"
    "Local Open Scope string_scope.\n"
    f"Definition iter_guard_table : list (string * (string * list string)) := [{tab}].\n"
    f"Definition iter_scratch : list string := [{'; '.join(_coq_str(s) for s in SCRATCH)}].\n"
    f"Definition post_loop_reads : list string := [{'; '.join(_coq_str(s) for s in g.post_loop_reads)}].\n"
  )
  sk = "; ".join(
    f"({_coq_str(r['kernel'])}, ([{'; '.join(_coq_str(o) for o in k['bound'])}], [{'; '.join(_coq_str(o) for o in k['stores_after'])}]))" for r in g.rows for k in r.get("skips", [])
  )
  text += (
    "(* S: fast-path early returns on a zero change counter: kernel, counter bound at the launch, fields stored after *)\n"
    f"Definition iter_skip_table : list (string * (list string * list string)) := [{sk}].\n"
    f"Definition skip_ok_counters : list string := [{'; '.join(_coq_str(x) for x in SKIP_OK_COUNTERS)}].\n"
    f"Definition hessian_only : list string := [{'; '.join(_coq_str(x) for x in HESSIAN_ONLY)}].\n"
  )
  vlib.write_if_changed(os.path.join(vlib.COQ, "Gen", "solver_term.v"), text)
  _cache["t"] = g
  return g


GENS = {"solver_term": gen_solver_term}
