"""S generator: host/device conversion skeleton (bin/extract_io.py) -> coq/Gen/Skel_io.v."""

from __future__ import annotations

import os

import vlib

_cache = {}


class Skel:
  def __init__(self, data):
    self.data = data
    self.errors = {}

  def __getitem__(self, k):
    return self.data[k]


def gen_skel_io():
  import extract_io as X

  if "skel" in _cache:
    return _cache["skel"]
  data = X.extract()  # raises ExtractError on an unknown shape (fail closed)
  vlib.write_if_changed(os.path.join(vlib.COQ, "Gen", "Skel_io.v"), X.to_coq(data))
  _cache["skel"] = Skel(data)
  return _cache["skel"]


GENS = {"Skel_io": gen_skel_io}
