"""S-extractor for C31: host/device conversion skeleton of io.py (+ the enums of types.py).

Source -> Coq data (coq/Gen/Skel_io.v).  A Python `ast` pass over /repo's io.py and types.py:

 (a) feature rejection.  Every `raise` of put_model: the three table-driven loops
       for field, field_type, mj_type in ((mjm.X, types.T, mujoco.mjtE), ...):
     are recognised by the exact text of their body (array test `~np.isin(field, field_type)`,
     scalar test `field not in set(field_type)`, flag test
     `field & ~np.bitwise_or.reduce(field_type)`) and give one `reject_row` per table line; every
     other raise gives a `reject_site` (exception, guard chain as text, message, the mujoco enum
     members and MjModel fields its guards mention).
     Every enum class of types.py is paired with the `mujoco.mjt*` enum its members are defined
     from (`X = mujoco.mjtGeom.mjGEOM_X`); the value lists of both sides are taken from the
     imported modules at generation time (`enum_pairs`).
 (b) field copies.  types.Model / Data / Contact / Constraint dataclass fields (AnnAssign);
     put_model: the generic `getattr(mjm, f.name, None)` constructor plus every `m.X = expr`
     (model_fields: copied / derived / absent); put_data: the generic `getattr(mjd, f.name, None)`
     loop, the explicit d_kwargs entries, later `d.X = expr` (also inside the _allocate_* helpers;
     `wp.empty(..)` = uninitialised), the Contact loop and `_create_constraint`'s copied-name tuple
     (data_fields); get_data_into: every `result.X... = expr` with the device fields it reads, how
     they are gathered ([world_id] / [ncon_filter] / [world_id, efc_idx]) and the guards.

The pass FAILS CLOSED: a statement whose shape is not one of those understood below raises
ExtractError (the check then reports the regeneration as broken)."""

from __future__ import annotations

import ast
import os
import re

import vlib

SRC = os.path.join(vlib.REPO, "mujoco_warp", "_src")


class ExtractError(Exception):
  pass


def U(n):
  return ast.unparse(n)


# Enum members that are neither defined by MJWarp nor rejected by put_model, with the reason why that
# is not a missing feature check.  The Coq theorem C31_feature_rejection_coverage states: every
# value of every paired mujoco enum is defined by MJWarp, rejected by a put_model row, or listed
# here; C31_exempt_only_unchecked_or_sentinel states that an entry is a count sentinel or belongs to
# an enum that put_model has no table row for.
EXEMPT = {
  ("mjtDisableBit", "mjNDISABLE"): "count sentinel (number of bits), not a flag",
  ("mjtEnableBit", "mjNENABLE"): "count sentinel (number of bits), not a flag",
  ("mjtStage", "mjSTAGE_NONE"): "sensor_needstage of a compiled model is POS/VEL/ACC (user sensors must name one of the three)",
  ("mjtDataType", "mjDATATYPE_AXIS"): "sensor_datatype: cutoff handling only distinguishes REAL and POSITIVE in both engines",
  ("mjtDataType", "mjDATATYPE_QUATERNION"): "sensor_datatype: cutoff handling only distinguishes REAL and POSITIVE in both engines",
  ("mjtState", "mjSTATE_PLUGIN"): "get_state/set_state signature bit, not an MjModel feature (plugins with state are rejected)",
}
# mjtObj tags: MJWarp names only the object types its kernels compare against; the object type of a
# sensor / actuator target is fixed by its (checked) sensor / transmission type.
EXEMPT_WHOLE = {"mjtObj": "object-type tag; determined by the checked sensor/transmission type, MJWarp names only those it compares against"}

ARRAY_BODY = ["missing = ~np.isin(field, field_type)", "if missing.any():"]
SCALAR_BODY = ["if field not in set(field_type):"]
FLAGS_BODY = ["unsupported = int(field) & ~int(np.bitwise_or.reduce(field_type))", "if unsupported:"]
FLAGS_BODY_OLD = ["unsupported = field & ~np.bitwise_or.reduce(field_type)", "if unsupported:"]  # before 6da38bb: same set of rejected words


def _parse(name):
  with open(os.path.join(SRC, name)) as fh:
    return ast.parse(fh.read())


def _func(tree, name):
  for n in tree.body:
    if isinstance(n, ast.FunctionDef) and n.name == name:
      return n
  raise ExtractError(f"function {name} not found")


def _cls(tree, name):
  for n in tree.body:
    if isinstance(n, ast.ClassDef) and n.name == name:
      return n
  raise ExtractError(f"class {name} not found")


def _chain(n):
  """a.b.c -> ['a','b','c'] or None."""
  out = []
  while isinstance(n, ast.Attribute):
    out.append(n.attr)
    n = n.value
  if isinstance(n, ast.Name):
    out.append(n.id)
    return out[::-1]
  return None


# ---- (a) enums --------------------------------------------------------------------
def _enums(types_tree):
  import mujoco

  pairs = []
  for c in types_tree.body:
    if not isinstance(c, ast.ClassDef):
      continue
    bases = [U(b) for b in c.bases]
    if not any(b in ("enum.IntEnum", "enum.IntFlag") for b in bases):
      continue
    members, mjs = [], set()
    for st in c.body:
      if isinstance(st, ast.Expr) and isinstance(st.value, ast.Constant):
        continue  # docstring
      if not (isinstance(st, ast.Assign) and len(st.targets) == 1 and isinstance(st.targets[0], ast.Name)):
        raise ExtractError(f"types.{c.name}: unexpected statement {U(st)[:60]}")
      ch = _chain(st.value)
      if ch and len(ch) == 3 and ch[0] == "mujoco" and ch[1].startswith("mjt"):
        mjs.add(ch[1])
        val = int(getattr(getattr(mujoco, ch[1]), ch[2]))
        members.append((st.targets[0].id, val, ch[2]))
      else:
        try:
          val = int(eval(compile(ast.Expression(st.value), "<enum>", "eval"), {"__builtins__": {}}, {}))
        except Exception as e:
          raise ExtractError(f"types.{c.name}.{st.targets[0].id}: cannot evaluate {U(st.value)}: {e}")
        members.append((st.targets[0].id, val, None))
    if len(mjs) > 1:
      raise ExtractError(f"types.{c.name} mixes mujoco enums {sorted(mjs)}")
    mj = next(iter(mjs)) if mjs else None
    mjvals = [(k, int(v)) for k, v in getattr(mujoco, mj).__members__.items()] if mj else []
    pairs.append({"mjw": c.name, "mj": mj, "flag": "enum.IntFlag" in bases, "mjw_vals": [(n, v) for n, v, _ in members], "mj_vals": mjvals})
  return pairs


# ---- (a) raises of put_model ------------------------------------------------------
def _table_loop(st):
  """(kind, rows) when `st` is one of the table-driven rejection loops, else None."""
  if not (isinstance(st, ast.For) and isinstance(st.iter, ast.Tuple) and st.iter.elts and all(isinstance(e, ast.Tuple) and len(e.elts) == 3 for e in st.iter.elts)):
    return None
  if not any(isinstance(n, ast.Raise) for n in ast.walk(st)):
    return None
  if U(st.target) != "(field, field_type, mj_type)":
    raise ExtractError(f"rejection loop with unknown target {U(st.target)}")
  heads = []
  for b in st.body:
    heads.append(U(b).split("\n")[0])
  kind = {tuple(ARRAY_BODY): "array", tuple(SCALAR_BODY): "scalar", tuple(FLAGS_BODY): "flags", tuple(FLAGS_BODY_OLD): "flags"}.get(tuple(heads))
  if kind is None:
    raise ExtractError(f"rejection loop with unknown body {heads}")
  last = st.body[-1]
  if not (isinstance(last, ast.If) and not last.orelse and isinstance(last.body[-1], ast.Raise) and U(last.body[-1].exc.func) == "NotImplementedError"):
    raise ExtractError(f"rejection loop ({kind}) does not end in raise NotImplementedError")
  rows = []
  for e in st.iter.elts:
    f, t, m = (_chain(x) for x in e.elts)
    if not (f and f[0] == "mjm" and t and t[0] == "types" and len(t) == 2 and m and m[0] == "mujoco" and len(m) == 2):
      raise ExtractError(f"rejection table line {U(e)}")
    rows.append({"kind": kind, "field": ".".join(f[1:]), "mjw": t[1], "mj": m[1]})
  return kind, rows


def _raises(fn):
  rows, sites = [], []

  def refs(nodes):
    enums, fields = [], []
    for g in nodes:
      for n in ast.walk(g):
        ch = _chain(n) if isinstance(n, ast.Attribute) else None
        if not ch:
          continue
        if ch[0] == "mujoco" and len(ch) == 3 and ch[1].startswith("mjt"):
          enums.append(ch[1] + "." + ch[2])
        elif ch[0] == "types" and len(ch) == 3:
          enums.append("types." + ch[1] + "." + ch[2])
        elif ch[0] == "mjm" and len(ch) >= 2:
          if ch[1] != "opt":
            fields.append(ch[1])
          elif len(ch) >= 3:
            fields.append("opt." + ch[2])
    return sorted(set(enums)), sorted(set(fields))

  def walk(body, guards, gnodes, where):
    for st in body:
      tl = _table_loop(st)
      if tl:
        rows.extend(tl[1])
        continue
      if isinstance(st, ast.Raise):
        exc = st.exc
        name = U(exc.func) if isinstance(exc, ast.Call) else U(exc)
        msg = U(exc.args[0]) if isinstance(exc, ast.Call) and exc.args else ""
        en, fl = refs(gnodes)
        sites.append({"exc": name, "where": where, "guards": list(guards), "msg": msg, "enums": en, "fields": fl, "line": st.lineno})
      elif isinstance(st, ast.If):
        walk(st.body, guards + [U(st.test)], gnodes + [st.test], where)
        walk(st.orelse, guards + ["not (" + U(st.test) + ")"], gnodes + [st.test], where)
      elif isinstance(st, (ast.For, ast.While)):
        g = f"for {U(st.target)} in {U(st.iter)}" if isinstance(st, ast.For) else f"while {U(st.test)}"
        walk(st.body, guards + [g], gnodes + ([st.iter] if isinstance(st, ast.For) else [st.test]), where)
      elif isinstance(st, ast.FunctionDef):
        walk(st.body, guards, gnodes, where + "." + st.name)
      elif isinstance(st, (ast.With, ast.Try)):
        raise ExtractError(f"put_model: unexpected {type(st).__name__} at line {st.lineno}")

  walk(fn.body, [], [], fn.name)
  return rows, sites


# ---- (b) dataclass fields ---------------------------------------------------------
def _fields(types_tree, cls):
  out = []
  for st in _cls(types_tree, cls).body:
    if isinstance(st, ast.AnnAssign) and isinstance(st.target, ast.Name):
      out.append((st.target.id, U(st.annotation)))
  if not out:
    raise ExtractError(f"types.{cls}: no fields")
  return out


def _attr_assigns(fn, var):
  """[(top-level attribute of `var`, full target text, value text, lineno)] for assignments `var.X... = v` in fn."""
  out = []
  for st in ast.walk(fn):
    if isinstance(st, (ast.Assign, ast.AugAssign)):
      tgts = st.targets if isinstance(st, ast.Assign) else [st.target]
      flat = []
      for t in tgts:
        flat.extend(t.elts if isinstance(t, ast.Tuple) else [t])
      for t in flat:
        base = t
        while isinstance(base, ast.Subscript):
          base = base.value
        ch = _chain(base)
        if ch and ch[0] == var and len(ch) >= 2:
          out.append((ch[1], U(t), U(st.value), st.lineno))
    elif isinstance(st, ast.Expr) and isinstance(st.value, ast.Call) and isinstance(st.value.func, ast.Attribute) and st.value.func.attr in ("zero_", "fill_"):
      ch = _chain(st.value.func.value)
      if ch and ch[0] == var and len(ch) == 2:
        out.append((ch[1], U(st.value.func.value), U(st.value), st.lineno))
  out.sort(key=lambda x: x[3])
  return out


MODEL_CTOR = "m = types.Model(**{f.name: getattr(mjm, f.name, None) for f in dataclasses.fields(types.Model)})"
DATA_LOOP = (
  "for f in dataclasses.fields(types.Data):\n    if f.name in d_kwargs:\n        continue\n    val = getattr(mjd, f.name, None)\n"
  "    d_kwargs[f.name] = _create_array(val, f.type, sizes)"
)
CONTACT_LOOP_HEAD = "for f in dataclasses.fields(types.Contact):"
CONTACT_LOOP_GET = "val = getattr(mjd.contact, f.name)"


def _model_fields(io_tree, types_tree):
  import mujoco

  fn = _func(io_tree, "put_model")
  if not any(isinstance(st, ast.Assign) and U(st) == MODEL_CTOR for st in fn.body):
    raise ExtractError("put_model: generic Model constructor not found")
  host = mujoco.MjModel.from_xml_string("<mujoco/>")
  assigns = {}
  for name, tgt, val, line in _attr_assigns(fn, "m"):
    assigns.setdefault(name, []).append((tgt, val))
  out = []
  for name, ann in _fields(types_tree, "Model"):
    if name in assigns:
      tgt, val = assigns[name][0]
      kind = "derived"
      srcs = "; ".join(f"{t} = {v}" for t, v in assigns[name][:3])
      # `m.X = mjm.X` (possibly reshaped) is still a plain copy
      if len(assigns[name]) == 1 and tgt == f"m.{name}" and re.fullmatch(rf"mjm\.{name}(\.reshape\(-1\))?", val):
        kind = "copied"
      out.append((name, kind, srcs))
    elif hasattr(host, name):
      out.append((name, "copied", f"getattr(mjm, '{name}')"))
    else:
      out.append((name, "absent", "None"))
  return out


def _data_fields(io_tree, types_tree):
  import mujoco

  fn = _func(io_tree, "put_data")
  host_m = mujoco.MjModel.from_xml_string("<mujoco/>")
  host = mujoco.MjData(host_m)
  # generic loop
  if not any(isinstance(st, ast.For) and U(st) == DATA_LOOP for st in fn.body):
    raise ExtractError("put_data: generic Data field loop not found / changed")
  dk = None
  for st in fn.body:
    if isinstance(st, ast.Assign) and U(st.targets[0]) == "d_kwargs" and isinstance(st.value, ast.Dict):
      dk = {k.value: U(v) for k, v in zip(st.value.keys, st.value.values)}
  if dk is None:
    raise ExtractError("put_data: d_kwargs dict not found")
  post = {}
  for name, tgt, val, line in _attr_assigns(fn, "d"):
    post.setdefault(name, []).append((tgt, val))
  called = [U(st.value.func) for st in fn.body if isinstance(st, ast.Expr) and isinstance(st.value, ast.Call) and isinstance(st.value.func, ast.Name)]
  for helper in ("_allocate_island_arrays", "_allocate_compact_arrays"):
    if helper not in called:
      raise ExtractError(f"put_data no longer calls {helper}")
    for name, tgt, val, line in _attr_assigns(_func(io_tree, helper), "d"):
      post.setdefault(name, []).append((tgt, val))

  def classify(val):
    v = val.strip()
    if v.startswith("wp.empty("):
      return "empty"
    if re.search(r"\bmjd\b|_init\b|\bqLD\b", v):
      return "explicit"
    return "const"

  out = []
  for name, ann in _fields(types_tree, "Data"):
    if name in ("contact", "efc"):
      continue
    if name in post:
      tgt, val = post[name][-1]
      # zero_/fill_ after an assignment: keep the method call as the last word
      kinds = [classify(v) for _, v in post[name]]
      kind = "empty" if kinds[0] == "empty" and all(k in ("empty",) for k in kinds) else ("explicit" if "explicit" in kinds else "const")
      if any(re.search(r"\.(zero_|fill_)\(", v) for _, v in post[name]):
        kind = "const"
      out.append((name, kind, "; ".join(f"{t} = {v}" for t, v in post[name][:3])))
    elif name in dk:
      v = dk[name]
      if v == "None":
        out.append((name, "none", "None"))
      else:
        out.append((name, classify(v) if classify(v) != "const" else "const", v))
    elif hasattr(host, name):
      out.append((name, "host", f"getattr(mjd, '{name}')"))
    else:
      out.append((name, "zeros", "_create_array(None, ..)"))
  # contact
  cfn = None
  for st in fn.body:
    if isinstance(st, ast.For) and U(st).startswith(CONTACT_LOOP_HEAD):
      cfn = st
  if cfn is None or CONTACT_LOOP_GET not in U(cfn):
    raise ExtractError("put_data: Contact field loop not found / changed")
  ck = None
  for st in fn.body:
    if isinstance(st, ast.Assign) and U(st.targets[0]) == "contact_kwargs" and isinstance(st.value, ast.Dict):
      ck = [k.value for k in st.value.keys]
  if ck is None:
    raise ExtractError("put_data: contact_kwargs not found")
  cpost = {}
  for name, tgt, val, line in _attr_assigns(fn, "contact"):
    cpost.setdefault(name, []).append((tgt, val))
  for name, ann in _fields(types_tree, "Contact"):
    full = "contact." + name
    if name in cpost:
      vals = cpost[name]
      kinds = [classify(t + " " + v) for t, v in vals]
      kind = "explicit" if "explicit" in kinds else ("empty" if "empty" in kinds else "const")
      out.append((full, kind, "; ".join(f"{t} = {v}" for t, v in vals[:3])))
    elif name in ck:
      out.append((full, "none", "None"))
    elif hasattr(host.contact, name) or name in ("flex", "elem", "vert"):
      out.append((full, "host", f"tile/pad getattr(mjd.contact, '{name}')"))
    else:
      raise ExtractError(f"put_data: Contact field {name} has no MjContact counterpart")
  # efc
  cc = _func(io_tree, "_create_constraint")
  copied = None
  for n in ast.walk(cc):
    if isinstance(n, ast.If) and isinstance(n.test, ast.Compare) and U(n.test.left) == "f.name" and isinstance(n.test.comparators[0], ast.Tuple) and "'efc_' + f.name" in U(n):
      copied = [e.value for e in n.test.comparators[0].elts]
      if "np.tile(getattr(mjd, 'efc_' + f.name), (nworld, 1))" not in U(n):
        raise ExtractError("_create_constraint: copy statement changed")
  if copied is None:
    raise ExtractError("_create_constraint: copied-name tuple not found")
  epost = {}
  for name, tgt, val, line in _attr_assigns(fn, "efc"):
    epost.setdefault(name, []).append((tgt, val))
  for name, ann in _fields(types_tree, "Constraint"):
    full = "efc." + name
    if name in epost:
      vals = epost[name]
      kind = "explicit" if any(re.search(r"\bmjd\b|\bJ\w*\b|jtdaj", v) and not v.startswith("wp.zeros") for _, v in vals) else "const"
      out.append((full, kind, "; ".join(f"{t} = {v}" for t, v in vals[:2])))
    elif name in copied:
      out.append((full, "host", f"np.tile(getattr(mjd, 'efc_{name}'), (nworld, 1))"))
    else:
      out.append((full, "zeros", "np.zeros(shape)"))
  return out, copied


def _get_reads(io_tree):
  fn = _func(io_tree, "get_data_into")
  out = []

  def dev_reads(expr):
    r = []
    for n in ast.walk(expr):
      ch = _chain(n) if isinstance(n, ast.Attribute) else None
      if ch and ch[0] == "d" and len(ch) >= 2:
        if ch[-1] == "numpy":
          ch = ch[:-1]
        r.append(".".join(ch[1:]))
    # keep maximal chains only (d.contact.dist, not d.contact)
    r = sorted(set(r))
    return [x for x in r if not any(y != x and y.startswith(x + ".") for y in r)]

  def walk(body, guards):
    for st in body:
      if isinstance(st, ast.Assign) and len(st.targets) == 1:
        t = st.targets[0]
        base, sl = (t.value, U(t.slice)) if isinstance(t, ast.Subscript) else (t, "")
        ch = _chain(base)
        if ch and ch[0] == "result" and len(ch) >= 2:
          v = U(st.value)
          if "[world_id, efc_idx]" in v:
            g = "efc_idx"
          elif "[ncon_filter]" in v:
            g = "filter"
          elif re.search(r"\.numpy\(\)\[world_id", v):
            g = "world"
          elif re.fullmatch(r"(ncon|ne|nf|nl|nisland|nidof)", v):
            g = "scalar"
          else:
            g = "other"
          out.append({"target": ".".join(ch[1:]), "slice": sl, "reads": dev_reads(st.value), "gather": g, "guards": list(guards), "src": v})
      elif isinstance(st, ast.If):
        walk(st.body, guards + [U(st.test)])
        walk(st.orelse, guards + ["not (" + U(st.test) + ")"])
      elif isinstance(st, (ast.For, ast.While)):
        walk(st.body, guards + ["loop"])

  walk(fn.body, [])
  if len(out) < 50:
    raise ExtractError("get_data_into: fewer than 50 result assignments found")
  return out


# the efc re-indexing block of get_data_into, statement by statement (model = Model/IoCopy.v)
EFC_IDX_SRC = [
  "nacon = min(d.nacon.numpy()[0], d.naconmax)",
  "nefc = min(d.nefc.numpy()[world_id], d.njmax)",
  "ncon_filter = np.zeros_like(d.contact.worldid.numpy(), dtype=bool)",
  "ncon_filter[:nacon] = d.contact.worldid.numpy()[:nacon] == world_id",
  "ncon = ncon_filter.sum()",
  "efc_idx_efl = np.arange(ne + nf + nl)",
  "contact_dim = d.contact.dim.numpy()[ncon_filter]",
  "contact_efc_address = d.contact.efc_address.numpy()[ncon_filter]",
  "efc_idx_c = []",
  "contact_efc_address_ordered = [ne + nf + nl]",
  "ndim = np.maximum(1, 2 * (dim - 1))",
  "ndim = dim",
  "efc_idx_c.append(contact_efc_address[i, :ndim])",
  "contact_efc_address_ordered.append(contact_efc_address_ordered[-1] + ndim)",
  "efc_idx = np.concatenate((efc_idx_efl, *efc_idx_c))",
  "efc_idx = np.array(np.arange(nefc))",
  "efc_idx = efc_idx[:nefc]",
  "result.contact.efc_address[:ncon] = contact_efc_address_ordered[:ncon]",
]
# statements of the repaired re-indexing (proposed_fixes/C31_rowless_contact.diff)
EFC_IDX_FIXED_SRC = [
  "adr = contact_efc_address[i, :ndim]",
  "adr = adr[adr >= 0]",
  "contact_efc_address_ordered.append(nrow if adr.size else -1)",
  "nrow += adr.size",
]


def _efc_idx_variant(io_tree):
  """'old' / 'fixed': which re-indexing get_data_into contains (statement-level match)."""
  stmts = set()
  for n in ast.walk(_func(io_tree, "get_data_into")):
    if isinstance(n, ast.stmt) and not isinstance(n, (ast.If, ast.For, ast.FunctionDef, ast.While)):
      stmts.add(U(n))
  missing_old = [s for s in EFC_IDX_SRC if s not in stmts]
  missing_fixed = [s for s in EFC_IDX_FIXED_SRC if s not in stmts]
  if not missing_old:
    return "old", []
  if not missing_fixed:
    return "fixed", []
  return "unknown", missing_old


def extract():
  io_tree, types_tree = _parse("io.py"), _parse("types.py")
  pairs = _enums(types_tree)
  rows, sites = _raises(_func(io_tree, "put_model"))
  if len(rows) < 10:
    raise ExtractError(f"only {len(rows)} table rejection rows found in put_model")
  names = {p["mjw"]: p for p in pairs}
  for r in rows:
    if r["mjw"] not in names or names[r["mjw"]]["mj"] != r["mj"]:
      raise ExtractError(f"rejection row {r} does not pair types.{r['mjw']} with mujoco.{r['mj']}")
  data_fields, efc_copied = _data_fields(io_tree, types_tree)
  variant, missing = _efc_idx_variant(io_tree)
  exempt = [(e, n, why) for (e, n), why in sorted(EXEMPT.items())]
  for p in pairs:
    if p["mj"] in EXEMPT_WHOLE:
      have = {v for _, v in p["mjw_vals"]}
      exempt += [(p["mj"], n, EXEMPT_WHOLE[p["mj"]]) for n, v in p["mj_vals"] if v not in have]
  return {
    "enum_pairs": pairs,
    "reject_rows": rows,
    "reject_sites": sites,
    "exempt": exempt,
    "model_fields": _model_fields(io_tree, types_tree),
    "data_fields": data_fields,
    "efc_copied": efc_copied,
    "get_reads": _get_reads(io_tree),
    "efc_idx_variant": variant,
    "efc_idx_missing": missing,
  }


# ---- Coq output -------------------------------------------------------------------
def _s(x):
  return '"' + str(x).replace('"', "'").replace("\n", " ") + '"'


def _z(v):
  return f"({v})" if v < 0 else str(v)


def _nv(lst):
  return "[" + "; ".join(f"({_s(n)}, {_z(v)})" for n, v in lst) + "]"


def _sl(lst):
  return "[" + "; ".join(_s(x) for x in lst) + "]"


def to_coq(X):
  L = [
    "(* GENERATED by /verif/bin/extract_io.py from /repo (io.py, types.py) and the installed mujoco module -- do not edit *)",
    "From Coq Require Import String List ZArith.",
    "From VF Require Import Model.IoCopy.",
    "Import ListNotations.",
    "Local Open Scope string_scope.",
    "Local Open Scope Z_scope.",
    "",
    "(* MJWarp enum (types.py) paired with the mujoco enum its members are defined from; values from the modules *)",
    "Definition enum_pairs : list enum_pair := [",
  ]
  ps = [p for p in X["enum_pairs"] if p["mj"]]
  L.append(";\n".join(f"  mkEP {_s(p['mjw'])} {_s(p['mj'])} {'true' if p['flag'] else 'false'}\n    {_nv(p['mjw_vals'])}\n    {_nv(p['mj_vals'])}" for p in ps))
  L.append("].")
  L.append("")
  L.append("(* table-driven NotImplementedError loops of put_model, one row per table line *)")
  L.append("Definition reject_rows : list reject_row := [")
  kk = {"array": "RArray", "scalar": "RScalar", "flags": "RFlags"}
  L.append(";\n".join(f"  mkRR {kk[r['kind']]} {_s(r['field'])} {_s(r['mjw'])} {_s(r['mj'])}" for r in X["reject_rows"]))
  L.append("].")
  L.append("")
  L.append("(* every other raise of put_model: exception, guard chain, message, enum members / MjModel fields the guards mention *)")
  L.append("Definition reject_sites : list reject_site := [")
  L.append(";\n".join(f"  mkRS {_s(s['exc'])} {_s(s['where'])} {_sl(s['guards'])} {_s(s['msg'])} {_sl(s['enums'])} {_sl(s['fields'])}" for s in X["reject_sites"]))
  L.append("].")
  L.append("")
  L.append("(* enum members that are neither defined by MJWarp nor rejected, with the reason (hand list in extract_io.py) *)")
  L.append("Definition exempt : list (string * string * string) := [")
  L.append(";\n".join(f"  ({_s(e)}, {_s(n)}, {_s(w)})" for e, n, w in X["exempt"]))
  L.append("].")
  L.append("")
  mk = {"copied": "MCopied", "derived": "MDerived", "absent": "MAbsent"}
  L.append("(* types.Model fields: copied = getattr(mjm, name) unchanged; derived = assigned by put_model; absent = neither *)")
  L.append("Definition model_fields : list mfield := [")
  L.append(";\n".join(f"  mkMF {_s(n)} {mk[k]} {_s(s[:160])}" for n, k, s in X["model_fields"]))
  L.append("].")
  L.append("")
  dk = {"host": "FHost", "zeros": "FZeros", "explicit": "FExplicit", "empty": "FEmpty", "none": "FNone", "const": "FConst"}
  L.append("(* types.Data / Contact / Constraint fields as put_data fills them: FHost = same-named MjData field tiled over nworld;")
  L.append("   FExplicit = expression over mjd; FConst = constant; FZeros = no MjData counterpart -> zeros; FEmpty = wp.empty (uninitialised) *)")
  L.append("Definition data_fields : list dfield := [")
  L.append(";\n".join(f"  mkDF {_s(n)} {dk[k]} {_s(s[:160])}" for n, k, s in X["data_fields"]))
  L.append("].")
  L.append("")
  gk = {"world": "GWorld", "filter": "GFilter", "efc_idx": "GEfcIdx", "scalar": "GScalar", "other": "GOther"}
  L.append("(* get_data_into: result.<target>[slice] = src; device fields read; gather kind; guards *)")
  L.append("Definition get_reads : list gread := [")
  L.append(";\n".join(f"  mkGR {_s(g['target'])} {_sl(g['reads'])} {gk[g['gather']]} {_sl(g['guards'])} {_s(g['src'][:160])}" for g in X["get_reads"]))
  L.append("].")
  L.append("")
  L.append("(* which efc re-indexing get_data_into currently contains (statement-level match against the transcribed block) *)")
  L.append(f"Definition efc_idx_variant : string := {_s(X['efc_idx_variant'])}.")
  return "\n".join(L) + "\n"


if __name__ == "__main__":
  import json

  X = extract()
  print(json.dumps({k: (v if k not in ("enum_pairs",) else len(v)) for k, v in X.items()}, indent=1, default=str)[:6000])
